// Package verifself is the engine's self test (vcheck selftest): small Go programs
// whose behaviour is known, run through exactly the same pipeline as the property
// harnesses (overlay → go/ssa → symbolic execution → solver → native replay).
//
//   - H_ST_lang_*: concrete programs that log what they compute with verifnd.Event;
//     the engine's event log must equal the log of the natively compiled program
//     (cross-validation), so an interpreter deviation from the Go semantics shows.
//   - H_ST_ops_*: every integer operator, at every width, on symbolic operands pinned
//     to boundary constants: the SMT term must equal what the concrete evaluator
//     computes (and that evaluator is compared with native Go through the events).
//   - H_ST_hold_*: identities of Go's arithmetic that hold for every value (unsat).
//   - H_ST_twin_*: assertions that are false for some rare input; the engine must
//     return that input and it must fail natively too. A twin that "holds" means the
//     pipeline has gone blind (vacuity guard for the whole engine).
package verifself

import (
	"errors"
	"fmt"
	"sort"
	"strconv"
	"strings"
	"sync"
	"time"

	"github.com/yandex/mysync/internal/verifnd"
)

// ---------- language semantics, concrete ----------

type shape interface {
	area() int
	name() string
}
type rect struct{ w, h int }
type square struct {
	rect
	tag string
}

func (r rect) area() int      { return r.w * r.h }
func (r rect) name() string   { return "rect" }
func (s square) name() string { return "square:" + s.tag }

type counter struct{ n int }

func (c *counter) inc() int { c.n++; return c.n }

type myErr struct{ code int }

func (e *myErr) Error() string { return "myErr " + strconv.Itoa(e.code) }

var errBase = errors.New("base")

func gmax[T int | int64 | float64 | string](a, b T) T {
	if a > b {
		return a
	}
	return b
}

type stack[T any] struct{ items []T }

func (s *stack[T]) push(v T) { s.items = append(s.items, v) }
func (s *stack[T]) pop() (T, bool) {
	var zero T
	if len(s.items) == 0 {
		return zero, false
	}
	v := s.items[len(s.items)-1]
	s.items = s.items[:len(s.items)-1]
	return v, true
}

func ev(format string, a ...any) { verifnd.Event(fmt.Sprintf(format, a...)) }

func H_ST_lang_data() {
	// slices: aliasing, append growth, copy, 3-index
	a := []int{1, 2, 3, 4, 5}
	b := a[1:3]
	b[0] = 20
	b = append(b, 30)
	c := a[1:3:3]
	c = append(c, 99)
	ev("slices a=%v b=%v c=%v len=%d cap=%d", a, b, c, len(c), cap(b))
	d := make([]int, 2, 10)
	n := copy(d, a)
	ev("copy n=%d d=%v", n, d)
	var nilS []int
	nilS = append(nilS, 7)
	ev("nil append %v %d", nilS, len(nilS))
	// arrays are values
	arr := [3]int{1, 2, 3}
	arr2 := arr
	arr2[0] = 9
	ev("arrays %v %v eq=%v", arr, arr2, arr == arr2)
	// maps: missing keys, delete, struct keys, len; iteration via sorted keys
	m := map[string]int{"a": 1, "b": 2}
	m["c"] += 5
	delete(m, "a")
	v, ok := m["zz"]
	keys := make([]string, 0)
	for k := range m {
		keys = append(keys, k)
	}
	sort.Strings(keys)
	ev("maps keys=%v v=%d ok=%v len=%d", keys, v, ok, len(m))
	type pt struct{ x, y int }
	pm := map[pt]string{{1, 2}: "p"}
	pm[pt{1, 2}] += "q"
	ev("struct key %q %d", pm[pt{1, 2}], len(pm))
	// structs: value copy vs pointer
	r1 := rect{2, 3}
	r2 := r1
	r2.w = 10
	pr := &r1
	pr.h = 7
	ev("structs %v %v %v", r1, r2, r1 == rect{2, 7})
	// strings: bytes, runes, concat, compare, conversion
	s := "héllo, мир"
	cnt := 0
	for range s {
		cnt++
	}
	bs := []byte(s)
	rs := []rune(s)
	ev("strings len=%d runes=%d %d %d %q %v", len(s), cnt, len(bs), len(rs), string(rs[1]), s[1:3] < "z")
	ev("strs %q %v %q %q", strings.ToUpper("abc"), strings.Split("a,b,,c", ","), strings.TrimSpace("  x "), strings.Join([]string{"x", "y"}, "-"))
	ev("strs2 %v %v %d %q", strings.HasPrefix("mysync", "my"), strings.Contains("abc", "bd"), strings.Index("abcabc", "ca"), strings.Repeat("ab", 3))
	ev("fields %v %q", strings.Fields(" a  b c "), strings.TrimSuffix("host.db.net", ".net"))
	i, err := strconv.Atoi("-123")
	_, err2 := strconv.Atoi("12x")
	ev("strconv %d %v %v %q %q", i, err, err2 != nil, strconv.Itoa(-45), strconv.FormatInt(255, 16))
	// (%+v / %#v of composite values are rendered like %v by the engine: message texts that
	// nothing inspects; not part of the self test)
	ev("fmt %5d|%-5d|%05d|%x|%X|%o|%b|%c|%q|%v|%T|%T", 42, 42, 42, 255, 255, 8, 5, 'A', "q\"s", r1, r1, &r1)
	ev("fmtf %.2f|%8.3f|%v|%g|%e", 3.14159, 2.5, 1.5, 1e21, 12345.678)
	ev("fmtm %v %v %s %d%%", []string{"a"}, map[string]int{"k": 1}, errBase, 50)
}

func H_ST_lang_control() {
	// loop variable semantics (per-iteration since Go 1.22)
	var fs []func() int
	for i := 0; i < 3; i++ {
		fs = append(fs, func() int { return i * i })
	}
	sum := 0
	for _, f := range fs {
		sum += f()
	}
	ev("loopvar %d", sum)
	// range over int, labelled break/continue, goto, switch fallthrough
	tot := 0
outer:
	for i := range 5 {
		for j := range 5 {
			if j == 3 {
				continue outer
			}
			if i == 3 {
				break outer
			}
			tot += i*10 + j
		}
	}
	ev("labels %d", tot)
	sw := ""
	for _, x := range []int{1, 2, 3, 4} {
		switch {
		case x == 1:
			sw += "a"
			fallthrough
		case x == 2:
			sw += "b"
		case x == 3:
			sw += "c"
		default:
			sw += "d"
		}
	}
	ev("switch %s", sw)
	// defer order, named results, recover, re-panic, panic values
	ev("defer %d", deferred())
	// (run-time panics — nil dereference, index, division — are reported by the engine as
	// violations even where the program would recover them; only explicit panics are recoverable)
	ev("recover %v", safely(func() {}))
	ev("recover2 %v", safely(func() { panic(&myErr{7}) }))
	ev("recover3 %v", safely(func() { panic(fmt.Errorf("e%d", 3)) }))
	ev("recover4 %v", safely(func() { panic(42) }))
	ev("nested %v", safely(func() {
		defer func() {
			if r := recover(); r != nil {
				panic(fmt.Sprintf("again:%v", r))
			}
		}()
		panic("first")
	}))
	// closures sharing state, method values and expressions
	c := &counter{}
	inc := c.inc
	inc()
	inc()
	f2 := (*counter).inc
	f2(c)
	acc := 0
	add := func(n int) func() { return func() { acc += n } }
	add(3)()
	add(4)()
	ev("closures %d %d", c.n, acc)
	// min/max/clear builtins
	mm := map[int]int{1: 1}
	clear(mm)
	ev("builtins %d %d %d %v", min(3, 1, 2), max(2.5, 1), len(mm), max("a", "b"))
	// generics
	st := &stack[string]{}
	st.push("x")
	st.push("y")
	top, _ := st.pop()
	_, _ = st.pop()
	_, ok := st.pop()
	ev("generics %d %v %s %s %v", gmax(3, 9), gmax(2.5, -1), gmax("a", "b"), top, ok)
}

func deferred() (res int) {
	defer func() { res *= 2 }()
	defer func() { res += 3 }()
	for i := 0; i < 3; i++ {
		defer func(n int) { res += n }(i)
	}
	return 10
}

func safely(f func()) (out string) {
	defer func() {
		if r := recover(); r != nil {
			switch x := r.(type) {
			case error:
				out = "error:" + x.Error()
			case string:
				out = "string:" + x
			default:
				out = fmt.Sprintf("other:%v", x)
			}
		}
	}()
	f()
	return "no panic"
}

func find(ok bool) *rect {
	if ok {
		return &rect{1, 1}
	}
	return nil
}

type sizer interface{ size() int }

func (r *rect) size() int { return r.w + r.h }

// typedNil returns a nil *rect wrapped in a non-nil interface when ok is false.
func typedNil(ok bool) sizer { return find(ok) }

func H_ST_lang_iface() {
	shapes := []shape{rect{2, 3}, square{rect{4, 4}, "t"}, &rect{1, 5}}
	for _, s := range shapes {
		kind := ""
		switch x := s.(type) {
		case rect:
			kind = "rect"
		case *rect:
			kind = "*rect" + strconv.Itoa(x.h)
		case square:
			kind = "square" + x.tag
		}
		_, isSq := s.(square)
		ev("iface %s %d %s %v", s.name(), s.area(), kind, isSq)
	}
	var s1, s2 shape
	ev("nil iface %v %v", s1 == nil, s1 == s2)
	s1, s2 = rect{1, 2}, rect{1, 2}
	ev("iface eq %v %v", s1 == s2, s1 == shape(rect{2, 1}))
	g := typedNil(false)
	ev("typed nil %v %v", g == nil, typedNil(true) == nil)
	var e error = &myErr{3}
	w := fmt.Errorf("wrap: %w", e)
	w2 := fmt.Errorf("again: %w", w)
	var me *myErr
	ev("errors %v %v %v %d %q", errors.Is(w2, e), errors.Is(w2, errBase), errors.As(w2, &me), me.code, w2.Error())
	ev("unwrap %v %v", errors.Unwrap(w) == e, errors.Unwrap(errBase) == nil)
	var anyv any = 3.5
	if f, ok := anyv.(float64); ok {
		ev("any %v %v", f, anyv != nil)
	}
}

func H_ST_lang_conc() {
	verifnd.GoroutineBaseline()
	// goroutines, channels, WaitGroup, Mutex, Once, select/default, close + range
	var wg sync.WaitGroup
	var mu sync.Mutex
	total := 0
	for i := 1; i <= 4; i++ {
		wg.Add(1)
		go func() {
			defer wg.Done()
			mu.Lock()
			total += i
			mu.Unlock()
		}()
	}
	wg.Wait()
	ev("wg %d", total)
	ch := make(chan int, 3)
	go func() {
		for i := 0; i < 3; i++ {
			ch <- i * 2
		}
		close(ch)
	}()
	got := []int{}
	for v := range ch {
		got = append(got, v)
	}
	_, open := <-ch
	ev("chan %v %v", got, open)
	var once sync.Once
	k := 0
	for i := 0; i < 3; i++ {
		once.Do(func() { k++ })
	}
	sel := ""
	c2 := make(chan string, 1)
	select {
	case v := <-c2:
		sel = v
	default:
		sel = "empty"
	}
	c2 <- "x"
	select {
	case v := <-c2:
		sel += v
	default:
		sel += "empty"
	}
	// a Once that is re-armed by assigning a fresh value (retry-after-failure idiom)
	var rearm sync.Once
	runs := 0
	for i := 0; i < 3; i++ {
		failed := false
		rearm.Do(func() { runs++; failed = i < 2 })
		if failed {
			rearm = sync.Once{}
		}
	}
	rearm.Do(func() { runs += 100 })
	ev("once %d select %s rearm %d", k, sel, runs)
	// rendez-vous on unbuffered channels (the goroutine parks at its send, the receive wakes it)
	res := make(chan string)
	go func() { res <- "done" }()
	ev("unbuffered %s", <-res)
	ping, pong := make(chan int), make(chan int)
	go func() {
		for v := range ping {
			pong <- v * 2
		}
		close(pong)
	}()
	acc := 0
	for i := 1; i <= 3; i++ {
		ping <- i
		acc += <-pong
	}
	close(ping)
	_, open2 := <-pong
	ev("pingpong %d %v", acc, open2)
	// worker pool over a small buffered channel: producers block when it is full
	jobs := make(chan int, 1)
	outs := make(chan int, 8)
	var wg2 sync.WaitGroup
	wg2.Add(1)
	go func() {
		defer wg2.Done()
		for j := range jobs {
			outs <- j * j
		}
	}()
	for j := 1; j <= 4; j++ {
		jobs <- j
	}
	close(jobs)
	wg2.Wait()
	close(outs)
	sq := 0
	for v := range outs {
		sq += v
	}
	ev("pool %d parked=%d", sq, verifnd.ParkedGoroutines())
	// a helper goroutine waiting in a select, stopped through an unbuffered quit channel
	quit := make(chan bool)
	tick := make(chan int)
	work := 0
	go func() {
		for {
			work++
			select {
			case <-quit:
				return
			case n := <-tick:
				work += n
			}
		}
	}()
	tick <- 10
	tick <- 20
	quit <- true
	ev("select-park work=%d parked=%d", work, verifnd.ParkedGoroutines())
}

func H_ST_lang_numeric() {
	// concrete arithmetic at the boundaries, conversions, float formatting
	vals := []int64{0, 1, -1, 7, -7, 127, 128, -128, -129, 255, 256, 32767, -32768, 1<<31 - 1, -1 << 31, 1 << 31, 1<<63 - 1, -1 << 63, 1 << 62, 1000000007}
	h := uint64(1469598103934665603)
	mix := func(v uint64) { h = (h ^ v) * 1099511628211 }
	for _, x := range vals {
		for _, y := range vals {
			mix(uint64(x + y))
			mix(uint64(x - y))
			mix(uint64(x * y))
			mix(uint64(x & y))
			mix(uint64(x | y))
			mix(uint64(x ^ y))
			mix(uint64(x &^ y))
			if y != 0 {
				mix(uint64(x / y))
				mix(uint64(x % y))
				mix(uint64(x) / uint64(y))
				mix(uint64(x) % uint64(y))
				mix(uint64(int8(x) / int8(y|1)))
				mix(uint64(int32(x) % int32(y|1)))
			}
			s := uint(y) & 127
			mix(uint64(x << s))
			mix(uint64(x >> s))
			mix(uint64(x) >> s)
			mix(uint64(int8(x) << (s & 15)))
			mix(uint64(int16(x) >> (s & 31)))
			mix(uint64(uint8(x)) + uint64(uint16(y)) + uint64(uint32(x)))
			mix(uint64(int64(int8(x)) + int64(int16(y)) + int64(int32(x))))
			if x < y {
				mix(1)
			}
			if uint64(x) < uint64(y) {
				mix(2)
			}
		}
	}
	ev("numeric hash %d", h)
	f := 7.9
	nf := -7.9
	ev("conv %d %d %d %v %v %v", int(f), int(nf), int64(float32(1.5)*2), float64(int64(1)<<53+1), uint8(int(f)), 1/3.0)
	var u8 uint8 = 250
	u8 += 10
	var i8 int8 = 127
	i8++
	ev("wrap %d %d %d", u8, i8, -(-128 + int(int8(0))))
	d := 90 * time.Second
	ev("time %v %v %v %d", d, d.Seconds(), time.Duration(1500)*time.Millisecond, d.Milliseconds())
}

// ---------- symbolic operators pinned to constants ----------

var opVals = []int64{0, 1, -1, 2, -2, 7, -7, 127, -128, 255, 256, 65535, 1<<31 - 1, -1 << 31, 1 << 32, 1<<63 - 1, -1 << 63, 1<<62 + 12345, 0x5555555555555555, -0x123456789abcdef}

func H_ST_ops_int64() {
	i := verifnd.Choose("i", len(opVals))
	cx := opVals[i]
	x := verifnd.Int64("x")
	verifnd.Assume(x == cx)
	A := verifnd.Assert
	for _, cy := range opVals {
		y := verifnd.Int64("y")
		verifnd.Assume(y == cy)
		ux, uy, ucx, ucy := uint64(x), uint64(y), uint64(cx), uint64(cy)
		A(x+y == cx+cy, "ops.add")
		A(x-y == cx-cy, "ops.sub")
		A(x*y == cx*cy, "ops.mul")
		A(x&y == cx&cy, "ops.and")
		A(x|y == cx|cy, "ops.or")
		A(x^y == cx^cy, "ops.xor")
		A(x&^y == cx&^cy, "ops.andnot")
		A(-x == -cx && ^x == ^cx, "ops.neg-not")
		A((x < y) == (cx < cy) && (x <= y) == (cx <= cy) && (x > y) == (cx > cy) && (x >= y) == (cx >= cy), "ops.cmp-signed")
		A((ux < uy) == (ucx < ucy) && (ux >= uy) == (ucx >= ucy), "ops.cmp-unsigned")
		A((x == y) == (cx == cy) && (x != y) == (cx != cy), "ops.eq")
		if cy != 0 {
			A(x/y == cx/cy, "ops.sdiv")
			A(x%y == cx%cy, "ops.srem")
			A(ux/uy == ucx/ucy, "ops.udiv")
			A(ux%uy == ucx%ucy, "ops.urem")
		}
		s, cs := uint(uy)&127, uint(ucy)&127
		A(x<<s == cx<<cs, "ops.shl")
		A(x>>s == cx>>cs, "ops.sar")
		A(ux>>s == ucx>>cs, "ops.shr")
		// conversions
		A(int8(x) == int8(cx) && int16(x) == int16(cx) && int32(x) == int32(cx), "ops.trunc-signed")
		A(uint8(x) == uint8(cx) && uint16(x) == uint16(cx) && uint32(x) == uint32(cx), "ops.trunc-unsigned")
		A(int64(int8(x)) == int64(int8(cx)) && int64(int32(y)) == int64(int32(cy)), "ops.sext")
		A(uint64(uint8(x)) == uint64(uint8(cx)) && uint64(uint32(y)) == uint64(uint32(cy)), "ops.zext")
		A(int64(uint32(x)) == int64(uint32(cx)) && uint64(int16(y)) == uint64(int16(cy)), "ops.mixed-ext")
		// narrow arithmetic wraps at its own width
		x8, y8, cx8, cy8 := int8(x), int8(y), int8(cx), int8(cy)
		A(x8+y8 == cx8+cy8 && x8*y8 == cx8*cy8 && x8-y8 == cx8-cy8, "ops.i8-arith")
		if cy8 != 0 {
			A(x8/y8 == cx8/cy8 && x8%y8 == cx8%cy8, "ops.i8-div")
		}
		A(x8<<(s&15) == cx8<<(cs&15) && x8>>(s&15) == cx8>>(cs&15), "ops.i8-shift")
		u16, v16, cu16, cv16 := uint16(x), uint16(y), uint16(cx), uint16(cy)
		A(u16+v16 == cu16+cv16 && u16*v16 == cu16*cv16 && u16>>(s&31) == cu16>>(cs&31), "ops.u16-arith")
		x32, y32, cx32, cy32 := int32(x), int32(y), int32(cx), int32(cy)
		A(x32*y32 == cx32*cy32 && x32+y32 == cx32+cy32 && (x32 < y32) == (cx32 < cy32), "ops.i32-arith")
		A(min(x, y) == min(cx, cy) && max(x, y) == max(cx, cy), "ops.minmax")
		A(verifnd.IteInt64(x < y, x, y) == min(cx, cy), "ops.ite")
	}
	verifnd.Reach("ST.ops.int64")
}

var fVals = []float64{0, 1, -1, 0.5, 100, -2.75, 3600}

func H_ST_ops_float() {
	i := verifnd.Choose("i", len(fVals))
	cx := fVals[i]
	x := verifnd.Float("x")
	verifnd.Assume(x == cx)
	A := verifnd.Assert
	for _, cy := range fVals {
		y := verifnd.Float("y")
		verifnd.Assume(y == cy)
		A(x+y == cx+cy, "fops.add")
		A(x-y == cx-cy, "fops.sub")
		A(x*y == cx*cy, "fops.mul")
		if cy != 0 {
			A(x/y == cx/cy, "fops.div")
		}
		A((x < y) == (cx < cy) && (x <= y) == (cx <= cy) && (x == y) == (cx == cy), "fops.cmp")
		A(-x == -cx, "fops.neg")
	}
	n := verifnd.Int64("n")
	verifnd.Assume(n == int64(i)*1000-3)
	A(float64(n) == float64(int64(i)*1000-3), "fops.int-to-float")
	verifnd.Reach("ST.ops.float")
}

// ---------- identities that hold for every value ----------

func H_ST_hold_bits() {
	x, y := verifnd.Int64("x"), verifnd.Int64("y")
	ux := uint64(x)
	A := verifnd.Assert
	A(x+y == y+x, "hold.add-comm")
	A(x-y == x+(-y), "hold.sub-neg")
	A(x<<3 == x*8, "hold.shl-mul")
	A(ux>>1 <= ux, "hold.shr-le")
	A(verifnd.Or(x>>63 == 0, x>>63 == -1), "hold.sar-sign")
	A(x&^y == x&(^y), "hold.andnot")
	A((x^y)^y == x, "hold.xor-inv")
	A(verifnd.And(int64(int8(x)) >= -128, int64(int8(x)) <= 127), "hold.sext8-range")
	A(uint64(uint8(x)) == ux&0xff, "hold.trunc8")
	A(int64(int32(x)) == (x<<32)>>32, "hold.sext32")
	s := uint(verifnd.Byte("s"))
	if s >= 64 {
		A(verifnd.And(ux<<s == 0, ux>>s == 0), "hold.shift-big-unsigned")
		A(verifnd.Or(x>>s == 0, x>>s == -1), "hold.shift-big-signed")
		verifnd.Reach("ST.hold.bigshift")
	} else {
		A((ux<<s)>>s <= ux, "hold.shift-roundtrip")
	}
	verifnd.Reach("ST.hold.bits")
}

func H_ST_hold_div() {
	x8, y8 := int8(verifnd.Byte("x")), int8(verifnd.Byte("y"))
	A := verifnd.Assert
	if y8 != 0 {
		A((x8/y8)*y8+x8%y8 == x8, "hold.divrem8")
		A(verifnd.Or(x8%y8 == 0, (x8%y8 < 0) == (x8 < 0)), "hold.rem-sign")
		u, v := uint8(x8), uint8(y8)
		A(verifnd.And((u/v)*v+u%v == u, u%v < v), "hold.udivrem8")
	}
	a16 := int16(verifnd.Int64("a"))
	if a16 < 0 {
		a16 = -a16
	}
	A(verifnd.Or(a16 >= 0, a16 == -32768), "hold.abs16")
	verifnd.Reach("ST.hold.div")
}

func H_ST_hold_loop() {
	// a symbolic loop bound within the unwinding limit
	n := int(verifnd.Byte("n") & 7)
	sum := 0
	for i := 0; i < n; i++ {
		sum += i
	}
	verifnd.Assert(sum == n*(n-1)/2, "hold.loop-sum")
	// symbolic index / key with a small range
	tab := []int{10, 20, 30, 40}
	k := verifnd.Int("k", 0, 3)
	verifnd.Assert(tab[k] == 10*(k+1), "hold.sym-index")
	m := map[int]string{1: "a", 2: "b"}
	mk := verifnd.Int("mk", 1, 3)
	v, ok := m[mk]
	verifnd.Assert(verifnd.And(ok == (mk != 3), (v == "a") == (mk == 1)), "hold.sym-key")
	verifnd.Reach("ST.hold.loop")
}

func H_ST_hold_float() {
	f := verifnd.Float("f")
	A := verifnd.Assert
	A(!(f < f), "hold.float-irreflexive")
	A(f != f || f+0 == f, "hold.float-plus-zero")
	A(f != f || -(-f) == f, "hold.float-negneg")
	g := verifnd.Float("g")
	if f <= g {
		A(!(g < f), "hold.float-order")
	}
	verifnd.Reach("ST.hold.float")
}

func H_ST_hold_clock() {
	t0 := verifnd.Now()
	d := time.Duration(verifnd.Int("d", 0, 1000000000))
	verifnd.Sleep(d)
	t1 := verifnd.Now()
	verifnd.Assert(!t1.Before(t0.Add(d)), "hold.clock-sleep")
	verifnd.Assert(verifnd.Since(t0) >= d, "hold.clock-since")
	verifnd.Reach("ST.hold.clock")
}

// ---------- twins: must be reported, with an input that fails natively ----------

func H_ST_twin_arith() {
	x := verifnd.Int64("x")
	verifnd.Assert(x+1 > x, "twin.overflow")
	y := int32(verifnd.Int64("y"))
	verifnd.Assert(y*y >= 0, "twin.mul-sign")
	z := int8(verifnd.Int64("z"))
	verifnd.Assert(-z != z || z == 0, "twin.neg-min")
	u := uint8(verifnd.Byte("u"))
	verifnd.Assert(u+1 > u, "twin.u8-wrap")
	a, b := verifnd.Int64("a"), verifnd.Int64("b")
	if a > 0 && b > 0 {
		verifnd.Assert((a+b)/2 >= min(a, b), "twin.midpoint")
	}
	p, q := verifnd.Uint64("p"), verifnd.Uint64("q")
	verifnd.Assert(p-q <= p, "twin.unsigned-underflow")
	// a rare 64-bit value
	r := verifnd.Uint64("r")
	verifnd.Assert((r^0xdeadbeefcafef00d)*3 != 0x123, "twin.needle")
}

func H_ST_twin_float() {
	f := verifnd.Float("f")
	verifnd.Assume(f == f && f > 0)
	verifnd.Assert(f+1 > f, "twin.float-absorb")
}

func H_ST_twin_index() {
	a := []int{1, 2, 3}
	i := verifnd.Int("i", 0, 3)
	_ = a[i]
	verifnd.Reach("ST.twin.index")
}

func H_ST_twin_typednil() {
	g := typedNil(verifnd.Bool("ok"))
	if g != nil {
		_ = g.size()
	}
}

func H_ST_twin_divzero() {
	d := verifnd.Int64("d")
	verifnd.Assume(d >= 0 && d < 4)
	_ = 100 / d
}

func H_ST_twin_nilmap() {
	var m map[string]int
	if verifnd.Choose("init", 2) == 1 {
		m = map[string]int{}
	}
	m["k"] = 1
}

func spin(step int) int {
	n := 0
	for i := 0; i < 2; i += step {
		n++
	}
	return n
}

func H_ST_twin_loop() {
	// a loop that does not terminate for one input: reported as non-termination
	verifnd.LoopLimit("verifself.spin", 64)
	n := int(verifnd.Byte("n") & 3)
	step := 1
	if n == 3 {
		step = 0
	}
	spin(step)
	verifnd.LoopLimit("verifself.spin", 0)
}

// collect returns early on the first error: with an unbuffered channel the remaining senders block for good.
func collect(n int, failMask int, buffered bool) error {
	size := 0
	if buffered {
		size = n
	}
	results := make(chan error, size)
	for k := 0; k < n; k++ {
		go func() {
			if failMask&(1<<uint(k)) != 0 {
				results <- errors.New("failed")
				return
			}
			results <- nil
		}()
	}
	for k := 0; k < n; k++ {
		if err := <-results; err != nil {
			return err
		}
	}
	return nil
}

func H_ST_hold_noleak() {
	verifnd.GoroutineBaseline()
	_ = collect(3, verifnd.Choose("fail.mask", 8), true)
	verifnd.Assert(verifnd.ParkedGoroutines() == 0, "hold.no-leak-buffered")
	verifnd.Reach("ST.hold.noleak")
}

func H_ST_twin_leak() {
	// (natively the order in which the senders arrive is up to the Go scheduler, the engine explores
	// one schedule: the twin fails in every schedule — all three senders report an error)
	verifnd.GoroutineBaseline()
	mask := 0
	if verifnd.Choose("all.fail", 2) == 1 {
		mask = 7
	}
	_ = collect(3, mask, false)
	verifnd.Assert(verifnd.ParkedGoroutines() == 0, "twin.goroutine-leak")
}

func H_ST_twin_clock() {
	t0 := verifnd.Now()
	verifnd.Sleep(time.Second)
	verifnd.Assert(verifnd.Since(t0) == time.Second, "twin.clock-exact")
}

func H_ST_twin_path() {
	// the failing input sits behind a chain of branches on symbolic data
	b := [4]byte{verifnd.Byte("b0"), verifnd.Byte("b1"), verifnd.Byte("b2"), verifnd.Byte("b3")}
	depth := 0
	if b[0] == 'm' {
		depth++
		if b[1]^b[0] == 0x14 {
			depth++
			if b[2] > 200 && b[2]&1 == 1 && b[2]%7 == 3 {
				depth++
				if int(b[3])*3+1 == 256 {
					depth++
				}
			}
		}
	}
	verifnd.Assert(depth < 4, "twin.deep-branch")
}
