package dcs

// C15 — coordination data-plane contract. One operation of the real zkDCS
// (create/Create/CreateEphemeral, set/Set/SetEphemeral, Get, Delete,
// GetChildren, buildFullPath, makePath, retry*) from an ARBITRARY tree
// (inductive step: sequences and client counts then follow), against the fake
// ZooKeeper server as the reference tree.

import (
	"errors"
	"strings"

	"github.com/yandex/mysync/internal/verifnd"
)

var verifKeys = []string{"a", "a/b", "a/b/c", "d"}

// verifSpell: spellings of key k that differ only by redundant slashes.
func verifSpell(k string, variant int) string {
	switch variant {
	case 0:
		return k
	case 1:
		return "/" + k
	case 2:
		return k + "/"
	case 3:
		return "//" + k
	case 4:
		return k + "//"
	default:
		return strings.ReplaceAll(k, "/", "//")
	}
}

type verifC15 struct {
	srv   *verifZKServer
	me    *verifZKClient
	other *verifZKClient
	z     *zkDCS
	// pre-state per key: 0 absent, 1 plain, 2 ephemeral (this session), 3 ephemeral (another session)
	kind    map[string]int
	garbage map[string]bool
	val     map[string]string
}

func verifC15Setup() *verifC15 { return verifC15SetupFor("", false) }

// verifC15SetupFor: arbitrary tree; unparsable data / non-zero version only on the key the
// operation addresses (they are irrelevant elsewhere), which keeps the case count small.
func verifC15SetupFor(focus string, withGarbage bool) *verifC15 {
	verifInstallRetry()
	srv := newVerifZKServer()
	srv.put("/ns", nil, 0)
	me := newVerifZKClient(srv, "me")
	other := newVerifZKClient(srv, "other")
	c := &verifC15{srv: srv, me: me, other: other, kind: map[string]int{}, garbage: map[string]bool{}, val: map[string]string{}}
	for _, k := range verifKeys {
		full := "/ns/" + k
		parent := verifZKParent(full)
		pn := srv.nodes[parent]
		if pn == nil || pn.ephOwner != 0 {
			c.kind[k] = 0 // no parent, or parent ephemeral (ZooKeeper: ephemerals have no children)
			continue
		}
		kd := verifnd.Choose("pre."+k, 4)
		c.kind[k] = kd
		if kd == 0 {
			continue
		}
		data := `"old-` + k + `"`
		c.val[k] = "old-" + k
		if k == focus && withGarbage && verifnd.Choose("garbage."+k, 2) == 1 {
			data = "{not json"
			c.garbage[k] = true
		}
		owner := int64(0)
		switch kd {
		case 2:
			owner = me.session
		case 3:
			owner = other.session
		}
		srv.put(full, []byte(data), owner)
		if k == focus {
			// the znode's data version is an arbitrary non-negative int32 (solver-decided)
			srv.nodes[full].version = int32(verifnd.Int("version."+k, 0, 1<<31-1))
		}
	}
	c.z = newVerifZkDCS(verifZKConfig("host-me"), me)
	return c
}

func (c *verifC15) exists(k string) bool { return c.srv.nodes["/ns/"+k] != nil }

func (c *verifC15) snapshot() map[string]string {
	m := map[string]string{}
	for p, n := range c.srv.nodes {
		m[p] = string(n.data) + "|" + verifItoa(int(n.ephOwner))
	}
	return m
}

func verifSameTree(a, b map[string]string, except string) bool {
	for p, v := range a {
		if p == except {
			continue
		}
		if w, ok := b[p]; !ok || w != v {
			return false
		}
	}
	for p := range b {
		if p == except {
			continue
		}
		if _, ok := a[p]; !ok {
			return false
		}
	}
	return true
}

// H_C15_op_step: one operation, fault-free, from an arbitrary tree.
func H_C15_op_step() {
	k := verifKeys[verifnd.Choose("key", len(verifKeys))]
	op := verifnd.Choose("op", 7)
	c := verifC15SetupFor(k, op == 4)
	path := verifSpell(k, verifnd.Choose("spelling", 6))
	full := "/ns/" + k
	pre := c.snapshot()
	existed := c.exists(k)
	parentExists := c.srv.nodes[verifZKParent(full)] != nil
	parentEph := parentExists && c.srv.nodes[verifZKParent(full)].ephOwner != 0
	hadChildren := c.srv.hasChildren(full)
	switch op {
	case 0, 1: // Create / CreateEphemeral
		var err error
		if op == 0 {
			err = c.z.Create(path, "new")
		} else {
			err = c.z.CreateEphemeral(path, "new")
		}
		verifnd.Assert(errors.Is(err, ErrExists) == existed, "create.exists-iff")
		if existed {
			verifnd.Reach("C15.create.exists")
			verifnd.Assert(verifSameTree(pre, c.snapshot(), ""), "create.exists-changes-nothing")
		} else if parentExists && !parentEph {
			verifnd.Reach("C15.create.ok")
			verifnd.Assert(err == nil, "create.ok")
			n := c.srv.nodes[full]
			verifnd.Assert(n != nil && string(n.data) == `"new"`, "create.ok")
			if n != nil {
				verifnd.Assert((n.ephOwner == c.me.session) == (op == 1) && (n.ephOwner == 0) == (op == 0), "create.ephemeral-flag")
			}
			verifnd.Assert(verifSameTree(pre, c.snapshot(), full), "path.same-key")
		} else {
			verifnd.Reach("C15.create.noparent")
			verifnd.Assert(err != nil && !errors.Is(err, ErrExists), "create.noparent-error")
			verifnd.Assert(verifSameTree(pre, c.snapshot(), ""), "create.noparent-changes-nothing")
		}
	case 2, 3: // Set / SetEphemeral
		var err error
		if op == 2 {
			err = c.z.Set(path, "new")
		} else {
			err = c.z.SetEphemeral(path, "new")
		}
		n := c.srv.nodes[full]
		switch {
		case existed && op == 3 && c.kind[k] == 1:
			// a plain key is never silently turned into an ephemeral one
			verifnd.Reach("C15.set.plain-to-ephemeral-refused")
			verifnd.Assert(err != nil, "set.never-plain-to-ephemeral")
			verifnd.Assert(verifSameTree(pre, c.snapshot(), ""), "set.never-plain-to-ephemeral")
		case existed:
			verifnd.Reach("C15.set.overwrite")
			verifnd.Assert(err == nil, "set.parents-overwrite")
			verifnd.Assert(n != nil && string(n.data) == `"new"`, "set.parents-overwrite")
			if n != nil {
				// overwriting keeps the node's nature (ephemeral stays ephemeral, with its owner)
				owner := int64(0)
				switch c.kind[k] {
				case 2:
					owner = c.me.session
				case 3:
					owner = c.other.session
				}
				verifnd.Assert(n.ephOwner == owner, "set.keeps-nature")
			}
			verifnd.Assert(verifSameTree(pre, c.snapshot(), full), "path.same-key")
		case parentEph || c.ancestorEphemeral(full):
			verifnd.Reach("C15.set.under-ephemeral")
			verifnd.Assert(err != nil, "set.under-ephemeral-error")
		default:
			verifnd.Reach("C15.set.create-with-parents")
			verifnd.Assert(err == nil, "set.parents-overwrite")
			verifnd.Assert(n != nil && string(n.data) == `"new"`, "set.parents-overwrite")
			if n != nil {
				verifnd.Assert((n.ephOwner == c.me.session) == (op == 3) && (n.ephOwner == 0) == (op == 2), "set.ephemeral-flag")
			}
			// every missing parent now exists and is plain
			for q := verifZKParent(full); q != "/ns"; q = verifZKParent(q) {
				pn := c.srv.nodes[q]
				verifnd.Assert(pn != nil && pn.ephOwner == 0, "set.parents-created-plain")
			}
		}
	case 4: // Get
		var dest string
		err := c.z.Get(path, &dest)
		switch {
		case !existed:
			verifnd.Reach("C15.get.notfound")
			verifnd.Assert(errors.Is(err, ErrNotFound), "get.notfound-vs-malformed")
		case c.garbage[k]:
			verifnd.Reach("C15.get.malformed")
			verifnd.Assert(errors.Is(err, ErrMalformed), "get.notfound-vs-malformed")
		default:
			verifnd.Reach("C15.get.ok")
			verifnd.Assert(err == nil && dest == c.val[k], "get.value")
		}
		verifnd.Assert(verifSameTree(pre, c.snapshot(), ""), "get.readonly")
	case 5: // Delete
		err := c.z.Delete(path)
		switch {
		case !existed:
			verifnd.Reach("C15.delete.absent")
			verifnd.Assert(err == nil, "delete.idempotent")
			verifnd.Assert(verifSameTree(pre, c.snapshot(), ""), "delete.idempotent")
		case hadChildren:
			verifnd.Reach("C15.delete.nonempty")
			verifnd.Assert(err != nil, "delete.nonempty-error")
			verifnd.Assert(verifSameTree(pre, c.snapshot(), ""), "delete.nonempty-error")
		default:
			verifnd.Reach("C15.delete.ok")
			verifnd.Assert(err == nil && !c.exists(k), "delete.removes")
			verifnd.Assert(verifSameTree(pre, c.snapshot(), full), "path.same-key")
		}
	case 6: // GetChildren
		ch, err := c.z.GetChildren(path)
		if !existed {
			verifnd.Reach("C15.children.notfound")
			verifnd.Assert(errors.Is(err, ErrNotFound), "children.notfound")
		} else {
			verifnd.Reach("C15.children.ok")
			verifnd.Assert(err == nil, "children.ok")
			want := 0
			for _, q := range verifKeys {
				if verifZKParent("/ns/"+q) == full && c.exists(q) {
					want++
					found := false
					for _, x := range ch {
						if "/ns/"+k+"/"+x == "/ns/"+q {
							found = true
						}
					}
					verifnd.Assert(found, "children.lists-all")
				}
			}
			verifnd.Assert(len(ch) == want, "children.lists-all")
		}
		verifnd.Assert(verifSameTree(pre, c.snapshot(), ""), "children.readonly")
	}
}

func (c *verifC15) ancestorEphemeral(full string) bool {
	for q := verifZKParent(full); q != "/"; q = verifZKParent(q) {
		if n := c.srv.nodes[q]; n != nil && n.ephOwner != 0 {
			return true
		}
	}
	return false
}

// H_C15_fullpath_bytes: buildFullPath on arbitrary byte strings over {'/','x','y'} up to
// a stated length: no "//", no trailing "/", starts with the namespace, same non-empty components in order.
func H_C15_fullpath_bytes() {
	n := verifnd.Choose("len", verifnd.Param("path_bytes", 6)+1)
	b := make([]byte, n)
	for i := range b {
		b[i] = "/xy"[verifnd.Choose("byte", 3)]
	}
	p := string(b)
	z := &zkDCS{config: verifZKConfig("h")}
	out := z.buildFullPath(p)
	verifnd.Assert(!strings.Contains(out, "//"), "path.normal-form")
	verifnd.Assert(!strings.HasSuffix(out, "/"), "path.normal-form")
	verifnd.Assert(strings.HasPrefix(out, "/ns"), "path.normal-form")
	var want []string
	for _, c := range strings.Split(p, "/") {
		if c != "" {
			want = append(want, c)
		}
	}
	exp := "/ns"
	if len(want) > 0 {
		exp += "/" + strings.Join(want, "/")
	}
	verifnd.Assert(out == exp, "path.same-components")
	verifnd.Reach("C15.fullpath")
}

// H_C15_retry: a request is retried only for ErrConnectionClosed and only while connected.
func H_C15_retry() {
	k := verifKeys[verifnd.Choose("key", 2)]
	c := verifC15SetupFor(k, true)
	c.me.FaultBudget = verifnd.Param("zk_faults", 1)
	c.z.isConnected = verifnd.Choose("connected", 2) == 1
	var dest string
	before := len(c.me.Calls)
	err := c.z.Get(k, &dest)
	calls := len(c.me.Calls) - before
	faults := verifnd.Param("zk_faults", 1) - c.me.FaultBudget
	if faults == 0 {
		verifnd.Assert(calls == 1, "retry.only-closed-while-connected")
	} else if !c.z.isConnected {
		verifnd.Reach("C15.retry.refused")
		verifnd.Assert(calls == 1 && err != nil, "retry.only-closed-while-connected")
	} else {
		verifnd.Reach("C15.retry.taken")
		verifnd.Assert(calls == faults+1, "retry.only-closed-while-connected")
		if !c.garbage[k] && c.exists(k) {
			verifnd.Assert(err == nil && dest == c.val[k], "retry.result")
		}
	}
}

// H_C15_ephemeral_lifetime: an ephemeral key created through the layer exists while its
// session lives, vanishes when the session ends, and a later session can recreate it.
func H_C15_ephemeral_lifetime() {
	verifInstallRetry()
	srv := newVerifZKServer()
	srv.put("/ns", nil, 0)
	c1 := newVerifZKClient(srv, "c1")
	z1 := newVerifZkDCS(verifZKConfig("h1"), c1)
	err := z1.SetEphemeral("health/h1", "state1")
	verifnd.Assert(err == nil && srv.nodes["/ns/health/h1"] != nil && srv.nodes["/ns/health/h1"].ephOwner == c1.session, "health.ephemeral")
	verifnd.Assert(srv.nodes["/ns/health"] != nil && srv.nodes["/ns/health"].ephOwner == 0, "health.parent-plain")
	// a second session (the restarted daemon) may refresh it while the old session lives
	c2 := newVerifZKClient(srv, "c2")
	z2 := newVerifZkDCS(verifZKConfig("h1"), c2)
	if verifnd.Choose("refresh-before-expiry", 2) == 1 {
		err = z2.SetEphemeral("health/h1", "state2")
		verifnd.Assert(err == nil, "health.refresh")
		verifnd.Assert(srv.nodes["/ns/health/h1"] != nil && srv.nodes["/ns/health/h1"].ephOwner == c1.session, "health.survives-refresh")
	}
	srv.endSession(c1.session)
	verifnd.Assert(srv.nodes["/ns/health/h1"] == nil, "health.gone-with-session")
	var s string
	verifnd.Assert(errors.Is(z2.Get("health/h1", &s), ErrNotFound), "health.gone-with-session")
	err = z2.SetEphemeral("health/h1", "state3")
	verifnd.Assert(err == nil && srv.nodes["/ns/health/h1"] != nil && srv.nodes["/ns/health/h1"].ephOwner == c2.session, "health.recreated")
	verifnd.Reach("C15.ephemeral")
}

// H_C15_retry_write: Create / Delete under connection faults (a request lost before it reached the
// server, or applied with the reply lost; the real retry wrappers re-send). Another client may
// create or delete the key between two attempts. Whatever happens, "nil" is only answered for an
// effect this very call had on the tree: Create answers nil only if one of its attempts created
// the node; Delete answers nil only if the node is gone.
func H_C15_retry_write() {
	k := verifKeys[verifnd.Choose("key", 2)]
	full := "/ns/" + k
	c := verifC15SetupFor(k, false)
	c.me.FaultBudget = verifnd.Param("zk_faults", 1)
	c.z.isConnected = true
	// the other client acts once, right before one of this client's requests
	acted := false
	c.me.Yield = func(op, path string) {
		if acted || path != full || verifnd.Choose("other.acts", 3) == 0 {
			return
		}
		acted = true
		if c.srv.nodes[full] == nil {
			if pn := c.srv.nodes[verifZKParent(full)]; pn != nil && pn.ephOwner == 0 {
				c.srv.put(full, []byte(`"theirs"`), 0)
				c.srv.Log = append(c.srv.Log, "other create "+full)
				verifnd.Event("other creates " + k)
			}
		} else if !c.srv.hasChildren(full) {
			_ = c.other.Delete(full, -1)
			verifnd.Event("other deletes " + k)
		}
	}
	nlog := len(c.srv.Log)
	op := verifnd.Choose("op", 2)
	var err error
	if op == 0 {
		err = c.z.Create(k, "mine")
	} else {
		err = c.z.Delete(k)
	}
	mine := 0
	for _, l := range c.srv.Log[nlog:] {
		if op == 0 && l == "me create "+full {
			mine++
		}
	}
	faults := verifnd.Param("zk_faults", 1) - c.me.FaultBudget
	if faults > 0 {
		verifnd.Reach("C15.retry-write.faulted")
	}
	if op == 0 {
		if err == nil {
			verifnd.Reach("C15.retry-write.created")
			verifnd.Assert(mine >= 1, "retry.create-nil-means-created-by-this-call")
		}
		if errors.Is(err, ErrExists) {
			verifnd.Reach("C15.retry-write.exists")
		}
		// (no at-most-once claim: a create applied with its reply lost is sent again, and if another
		// client deleted the node in between it is applied twice — at-least-once is all ZooKeeper offers)
	} else if err == nil {
		// (the other client may have re-created it after this call's delete was applied)
		verifnd.Assert(c.srv.nodes[full] == nil || acted, "retry.delete-nil-means-gone")
	}
}
