package dcs

// C03 (lock layer) — exclusive manager. Two mysync processes (two real zkDCS
// instances) share one fake ZooKeeper. Process P runs a sequence of lock
// operations; at every ZooKeeper request of P (scheduling point) the environment
// may act: expire a session, give a process a new session, deliver a queued
// session event to a process's real handleSessionEvent, let the OTHER process
// run a whole AcquireLock/ReleaseLock, let the clock pass the cache TTL.
// (The other process's operations are atomic at P's scheduling points; P is
// either of the two symmetric processes, so every race that needs one operation
// to be split is covered; races that need both operations split are outside.)

import (
	"time"

	"github.com/go-zookeeper/zk"
	"github.com/yandex/mysync/internal/verifnd"
)

type verifProc struct {
	name    string
	z       *zkDCS
	c       *verifZKClient
	queue   []zk.State // session events not yet delivered to handleSessionEvent
	told    bool       // the latest AcquireLock answer
	lostDelivered bool // a non-connected session event was delivered since the last znode-backed confirmation
}

type verifC03 struct {
	srv    *verifZKServer
	p      [2]*verifProc
	budget int
	inEnv  bool
}

const verifLockPath = "/ns/manager"

func (w *verifC03) owner() *verifProc {
	n := w.srv.nodes[verifLockPath]
	if n == nil {
		return nil
	}
	for _, p := range w.p {
		if n.ephOwner == p.c.session && w.srv.alive[p.c.session] {
			return p
		}
	}
	return nil
}

// acquire runs the real AcquireLock of process p and checks the answers.
func (w *verifC03) acquire(p *verifProc) {
	ncalls := len(p.c.Calls)
	ans := p.z.AcquireLock("manager")
	verifnd.Event(p.name + " acquire -> " + map[bool]string{true: "true", false: "false"}[ans])
	p.told = ans
	if !ans {
		return
	}
	verifnd.Reach("C03.told-true." + p.name)
	own := w.owner()
	if own == p {
		p.lostDelivered = false
		return
	}
	if len(p.c.Calls) > ncalls {
		// the answer was computed from ZooKeeper requests made in this very call (not from the
		// cache); the environment acts only at p's requests, so the store has not changed since
		// p's last request was served: a fresh "true" must be backed by p's own lock znode
		verifnd.Reach("C03.fresh-answer")
		verifnd.Assert(false, "lock.fresh-true-without-znode")
		return
	}
	// answered from the cache although the znode is not (any more) p's
	verifnd.Reach("C03.cache-answer-without-znode")
	// (ii) never after the loss of the session was delivered to p
	verifnd.Assert(!p.lostDelivered, "lock.true-after-delivered-expiry")
	// (i) within the lease window another process may already own the lock
	other := w.p[0]
	if other == p {
		other = w.p[1]
	}
	if own == other && other.told {
		verifnd.Fact("window", "lease")
		verifnd.Assert(false, "lock.two-holders-lease-window")
	}
}

func (w *verifC03) release(p *verifProc) {
	before := w.srv.nodes[verifLockPath]
	var ownerBefore *verifProc
	if before != nil {
		ownerBefore = w.owner()
	}
	nlog := len(w.srv.Log)
	p.z.ReleaseLock("manager")
	verifnd.Event(p.name + " release")
	p.told = false
	// (iii) releasing never removes a lock owned by another process
	for _, l := range w.srv.Log[nlog:] {
		if l == p.c.name+" delete "+verifLockPath {
			verifnd.Reach("C03.released")
			_ = ownerBefore
		}
	}
}

// deleteCheck is called by the fake server hook right before a delete of the lock znode by process p.
func (w *verifC03) deleteCheck(p *verifProc) {
	own := w.owner()
	if own != nil && own != p {
		verifnd.Assert(false, "release.removed-foreign-lock")
	}
}

// env: environment actions at a scheduling point of the running process.
func (w *verifC03) env(running *verifProc) {
	if w.inEnv {
		return
	}
	w.inEnv = true
	defer func() { w.inEnv = false }()
	for w.budget > 0 {
		// 0: nothing more; per process: 1 expire session, 2 new session, 3 deliver event; 7: other acquires, 8: other releases, 9: TTL passes
		a := verifnd.Choose("env", 10)
		if a == 0 {
			return
		}
		w.budget--
		other := w.p[0]
		if other == running {
			other = w.p[1]
		}
		switch a {
		case 1, 4:
			p := w.p[(a-1)/3]
			if !w.srv.alive[p.c.session] {
				verifnd.Assume(false)
			}
			w.srv.endSession(p.c.session)
			p.queue = append(p.queue, zk.StateDisconnected, zk.StateExpired)
			verifnd.Event("env expire " + p.name)
		case 2, 5:
			p := w.p[(a-2)/3]
			if w.srv.alive[p.c.session] {
				verifnd.Assume(false)
			}
			p.c.session = w.srv.newSession()
			p.queue = append(p.queue, zk.StateHasSession)
			verifnd.Event("env new-session " + p.name)
		case 3, 6:
			p := w.p[(a-3)/3]
			if len(p.queue) == 0 {
				verifnd.Assume(false)
			}
			st := p.queue[0]
			p.queue = p.queue[1:]
			p.z.handleSessionEvent(zk.Event{Type: zk.EventSession, State: st})
			if st != zk.StateHasSession {
				p.lostDelivered = true
				verifnd.Reach("C03.loss-delivered")
			}
			verifnd.Event("env deliver " + p.name)
		case 7:
			w.acquire(other)
		case 8:
			w.release(other)
		case 9:
			verifnd.Sleep(time.Duration(running.z.config.LockHeldTTL))
			verifnd.Event("env ttl-passes")
		}
	}
}

func H_C03_lock_interleave() {
	verifInstallRetry()
	srv := newVerifZKServer()
	srv.put("/ns", nil, 0)
	w := &verifC03{srv: srv, budget: verifnd.Param("ctx", 3)}
	for i, name := range []string{"p1", "p2"} {
		c := newVerifZKClient(srv, name)
		cfg := verifZKConfig("host-" + name)
		z := newVerifZkDCS(cfg, c)
		w.p[i] = &verifProc{name: name, z: z, c: c}
	}
	for _, p := range w.p {
		p := p
		p.c.Yield = func(op, path string) { w.env(p) }
	}
	// connection faults of p1: a request lost before it reached the server, or applied with the
	// reply lost; the real retry wrappers then send it again (another scheduling point)
	w.p[0].c.FaultBudget = verifnd.Param("zkfaults", 0)
	srv.OnDelete = func(c *verifZKClient, path string) {
		if path != verifLockPath {
			return
		}
		for _, p := range w.p {
			if p.c == c {
				w.deleteCheck(p)
			}
		}
	}
	// the lock may already be held by p2 (arbitrary start)
	if verifnd.Choose("p2-holds-initially", 2) == 1 {
		w.inEnv = true
		w.acquire(w.p[1])
		w.inEnv = false
	}
	nops := verifnd.Param("ops", 2)
	p := w.p[0]
	for i := 0; i < nops; i++ {
		switch verifnd.Choose("op", 2) {
		case 0:
			w.acquire(p)
		case 1:
			w.release(p)
		}
	}
	if w.p[0].told && w.p[1].told {
		verifnd.Reach("C03.both-told-at-end")
		// both believe they hold: must be the lease window only (one of them answered from cache)
	}
	verifnd.Reach("C03.done")
}

// H_C03_lock_interleave_faults: the same with one connection fault on p1 (lost request / lost reply).
func H_C03_lock_interleave_faults() { H_C03_lock_interleave() }
