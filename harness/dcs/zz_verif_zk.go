package dcs

// Fake ZooKeeper (DESIGN §3.2b): sessions, znodes with data/version/ephemeral
// owner, the ZooKeeper rules for create / set(version) / delete(version) / get /
// children, ephemeral removal on session end. zk.go's calls on *zk.Conn are
// redirected here by the instrumenter (`z.conn.` → `verifConn(z).`), its
// json.Marshal/Unmarshal calls to the encoders below (real JSON text for the few
// types involved; natively cross-checked against encoding/json).

import (
	"encoding/json"
	"errors"
	"strings"

	"github.com/cenkalti/backoff/v4"
	"github.com/go-zookeeper/zk"
	"github.com/rs/zerolog"
	"github.com/yandex/mysync/internal/log"
	"github.com/yandex/mysync/internal/verifnd"
)

type verifZKConn interface {
	Get(path string) ([]byte, *zk.Stat, error)
	Set(path string, data []byte, version int32) (*zk.Stat, error)
	Create(path string, data []byte, flags int32, acl []zk.ACL) (string, error)
	Delete(path string, version int32) error
	Children(path string) ([]string, *zk.Stat, error)
	Close()
	AddAuth(scheme string, auth []byte) error
}

// verifConns: fake connection per zkDCS instance (nil entry ⇒ the real *zk.Conn).
var verifConns = map[*zkDCS]verifZKConn{}

func verifConn(z *zkDCS) verifZKConn {
	if c, ok := verifConns[z]; ok {
		return c
	}
	return z.conn
}

type verifZnode struct {
	data     []byte
	version  int32
	ephOwner int64
}

type verifZKServer struct {
	nodes       map[string]*verifZnode
	order       []string
	alive       map[int64]bool // session id -> alive
	nextSession int64
	Log         []string
	// OnDelete is called right before a delete request is APPLIED by the server.
	OnDelete func(c *verifZKClient, path string)
}

func newVerifZKServer() *verifZKServer {
	return &verifZKServer{nodes: map[string]*verifZnode{"/": {}}, alive: map[int64]bool{}, nextSession: 100}
}

func (s *verifZKServer) newSession() int64 {
	s.nextSession++
	s.alive[s.nextSession] = true
	return s.nextSession
}

// endSession: the server expires (or closes) a session: its ephemerals vanish.
func (s *verifZKServer) endSession(id int64) {
	s.alive[id] = false
	var keep []string
	for _, p := range s.order {
		if n := s.nodes[p]; n != nil && n.ephOwner == id {
			delete(s.nodes, p)
			continue
		}
		keep = append(keep, p)
	}
	s.order = keep
}

func verifZKParent(p string) string {
	i := strings.LastIndex(p, "/")
	if i <= 0 {
		return "/"
	}
	return p[:i]
}

func (s *verifZKServer) put(p string, data []byte, owner int64) {
	if _, ok := s.nodes[p]; !ok {
		s.order = append(s.order, p)
	}
	s.nodes[p] = &verifZnode{data: append([]byte{}, data...), ephOwner: owner}
}

func (s *verifZKServer) hasChildren(p string) bool {
	prefix := p + "/"
	if p == "/" {
		prefix = "/"
	}
	for q := range s.nodes {
		if q != p && strings.HasPrefix(q, prefix) {
			return true
		}
	}
	return false
}

// verifZKClient is one client connection (one mysync process).
type verifZKClient struct {
	srv     *verifZKServer
	name    string
	session int64 // current session id
	connUp  bool  // TCP connection established
	// fault injection: remaining requests that fail with ErrConnectionClosed
	// (Choose per request: before the request is applied / after it was applied)
	FaultBudget int
	// Yield is called before every request reaches the server (scheduling point).
	Yield func(op, path string)
	Calls []string
}

func newVerifZKClient(srv *verifZKServer, name string) *verifZKClient {
	return &verifZKClient{srv: srv, name: name, session: srv.newSession(), connUp: true}
}

// pre: common request prologue; returns (err, appliedAnyway).
func (c *verifZKClient) pre(op, path string, mutating bool) (error, bool) {
	if c.Yield != nil {
		c.Yield(op, path)
	}
	c.Calls = append(c.Calls, op+" "+path)
	if !c.connUp {
		return zk.ErrConnectionClosed, false
	}
	if !c.srv.alive[c.session] {
		return zk.ErrSessionExpired, false
	}
	if c.FaultBudget > 0 {
		n := 2
		if mutating {
			n = 3
		}
		switch verifnd.Choose("zkfault."+c.name+"."+op, n) {
		case 1:
			c.FaultBudget--
			verifnd.Event("zk-fault " + c.name + " " + op + " lost-before")
			return zk.ErrConnectionClosed, false
		case 2:
			c.FaultBudget--
			verifnd.Event("zk-fault " + c.name + " " + op + " lost-after")
			return zk.ErrConnectionClosed, true
		}
	}
	return nil, true
}

func (c *verifZKClient) Get(path string) ([]byte, *zk.Stat, error) {
	if err, _ := c.pre("get", path, false); err != nil {
		return nil, nil, err
	}
	n := c.srv.nodes[path]
	if n == nil {
		return nil, nil, zk.ErrNoNode
	}
	return append([]byte{}, n.data...), &zk.Stat{Version: n.version, EphemeralOwner: n.ephOwner, DataLength: int32(len(n.data))}, nil
}

func (c *verifZKClient) Children(path string) ([]string, *zk.Stat, error) {
	if err, _ := c.pre("children", path, false); err != nil {
		return nil, nil, err
	}
	n := c.srv.nodes[path]
	if n == nil {
		return nil, nil, zk.ErrNoNode
	}
	prefix := path + "/"
	if path == "/" {
		prefix = "/"
	}
	var out []string
	for _, q := range c.srv.order {
		if strings.HasPrefix(q, prefix) && q != path && !strings.Contains(q[len(prefix):], "/") {
			out = append(out, q[len(prefix):])
		}
	}
	return out, &zk.Stat{Version: n.version, EphemeralOwner: n.ephOwner}, nil
}

func (c *verifZKClient) Create(path string, data []byte, flags int32, acl []zk.ACL) (string, error) {
	err, apply := c.pre("create", path, true)
	if !apply {
		return "", err
	}
	var res error
	switch {
	case c.srv.nodes[path] != nil:
		res = zk.ErrNodeExists
	case c.srv.nodes[verifZKParent(path)] == nil:
		res = zk.ErrNoNode
	case c.srv.nodes[verifZKParent(path)].ephOwner != 0:
		res = zk.ErrNoChildrenForEphemerals
	default:
		owner := int64(0)
		if flags&zk.FlagEphemeral != 0 {
			owner = c.session
		}
		c.srv.put(path, data, owner)
		c.srv.Log = append(c.srv.Log, c.name+" create "+path)
	}
	if err != nil {
		return "", err // reply lost
	}
	if res != nil {
		return "", res
	}
	return path, nil
}

func (c *verifZKClient) Set(path string, data []byte, version int32) (*zk.Stat, error) {
	err, apply := c.pre("set", path, true)
	if !apply {
		return nil, err
	}
	n := c.srv.nodes[path]
	var res error
	switch {
	case n == nil:
		res = zk.ErrNoNode
	case version != -1 && version != n.version:
		res = zk.ErrBadVersion
	default:
		n.data = append([]byte{}, data...)
		n.version++
		c.srv.Log = append(c.srv.Log, c.name+" set "+path)
	}
	if err != nil {
		return nil, err
	}
	if res != nil {
		return nil, res
	}
	return &zk.Stat{Version: n.version, EphemeralOwner: n.ephOwner}, nil
}

func (c *verifZKClient) Delete(path string, version int32) error {
	err, apply := c.pre("delete", path, true)
	if !apply {
		return err
	}
	n := c.srv.nodes[path]
	var res error
	switch {
	case n == nil:
		res = zk.ErrNoNode
	case version != -1 && version != n.version:
		res = zk.ErrBadVersion
	case c.srv.hasChildren(path):
		res = zk.ErrNotEmpty
	default:
		if c.srv.OnDelete != nil {
			c.srv.OnDelete(c, path)
		}
		delete(c.srv.nodes, path)
		for i, q := range c.srv.order {
			if q == path {
				c.srv.order = append(c.srv.order[:i:i], c.srv.order[i+1:]...)
				break
			}
		}
		c.srv.Log = append(c.srv.Log, c.name+" delete "+path)
	}
	if err != nil {
		return err
	}
	return res
}

func (c *verifZKClient) Close()                                   {}
func (c *verifZKClient) AddAuth(scheme string, auth []byte) error { return nil }

var _ verifZKConn = (*verifZKClient)(nil)
var _ verifZKConn = (*zk.Conn)(nil)

// ---- JSON: real JSON text for the few types zk.go handles in the harnesses ----

type verifPayload struct {
	A string `json:"a"`
	N int    `json:"n"`
}

func verifItoa(n int) string {
	if n == 0 {
		return "0"
	}
	neg := n < 0
	if neg {
		n = -n
	}
	var b []byte
	for n > 0 {
		b = append([]byte{byte('0' + n%10)}, b...)
		n /= 10
	}
	if neg {
		b = append([]byte{'-'}, b...)
	}
	return string(b)
}

func verifEncode(v any) (string, bool) {
	switch x := v.(type) {
	case nil:
		return "null", true
	case string:
		return `"` + x + `"`, true
	case *string:
		return `"` + *x + `"`, true
	case bool:
		if x {
			return "true", true
		}
		return "false", true
	case struct{}:
		return "{}", true
	case *struct{}:
		return "{}", true
	case LockOwner:
		return `{"hostname":"` + x.Hostname + `","pid":` + verifItoa(x.Pid) + `}`, true
	case *LockOwner:
		return `{"hostname":"` + x.Hostname + `","pid":` + verifItoa(x.Pid) + `}`, true
	case verifPayload:
		return `{"a":"` + x.A + `","n":` + verifItoa(x.N) + `}`, true
	case *verifPayload:
		return `{"a":"` + x.A + `","n":` + verifItoa(x.N) + `}`, true
	}
	return "", false
}

func verifJSONMarshal(v any) ([]byte, error) {
	if !verifnd.Symbolic() {
		b, err := json.Marshal(v)
		if s, ok := verifEncode(v); ok && err == nil && s != string(b) {
			panic("verif: JSON model disagrees with encoding/json: " + s + " vs " + string(b))
		}
		return b, err
	}
	s, ok := verifEncode(v)
	if !ok {
		panic("verif: JSON encoding of this type is not modelled")
	}
	return []byte(s), nil
}

// verifDecodeObj parses {"k":"v","n":1} objects with string/int fields (no escapes).
func verifDecodeObj(s string) (map[string]string, bool) {
	if len(s) < 2 || s[0] != '{' || s[len(s)-1] != '}' {
		return nil, false
	}
	out := map[string]string{}
	body := s[1 : len(s)-1]
	if body == "" {
		return out, true
	}
	for _, kv := range strings.Split(body, ",") {
		i := strings.Index(kv, ":")
		if i < 3 || kv[0] != '"' || kv[i-1] != '"' {
			return nil, false
		}
		out[kv[1:i-1]] = kv[i+1:]
	}
	return out, true
}

func verifAtoi(s string) (int, bool) {
	if s == "" {
		return 0, false
	}
	n, neg := 0, false
	for i := 0; i < len(s); i++ {
		if i == 0 && s[i] == '-' {
			neg = true
			continue
		}
		if s[i] < '0' || s[i] > '9' {
			return 0, false
		}
		n = n*10 + int(s[i]-'0')
	}
	if neg {
		n = -n
	}
	return n, true
}

func verifUnq(s string) (string, bool) {
	if len(s) >= 2 && s[0] == '"' && s[len(s)-1] == '"' {
		return s[1 : len(s)-1], true
	}
	return "", false
}

var errVerifJSON = errors.New("invalid character looking for beginning of value")

func verifJSONUnmarshal(data []byte, dest any) error {
	if !verifnd.Symbolic() {
		return json.Unmarshal(data, dest)
	}
	s := string(data)
	if s == "null" {
		return nil
	}
	switch d := dest.(type) {
	case *string:
		if v, ok := verifUnq(s); ok {
			*d = v
			return nil
		}
	case *struct{}:
		if _, ok := verifDecodeObj(s); ok {
			return nil
		}
	case *LockOwner:
		if m, ok := verifDecodeObj(s); ok {
			var o LockOwner
			if h, ok := m["hostname"]; ok {
				if o.Hostname, ok = verifUnq(h); !ok {
					return errVerifJSON
				}
			}
			if p, ok := m["pid"]; ok {
				if o.Pid, ok = verifAtoi(p); !ok {
					return errVerifJSON
				}
			}
			*d = o
			return nil
		}
	case *verifPayload:
		if m, ok := verifDecodeObj(s); ok {
			var o verifPayload
			if a, ok := m["a"]; ok {
				if o.A, ok = verifUnq(a); !ok {
					return errVerifJSON
				}
			}
			if n, ok := m["n"]; ok {
				if o.N, ok = verifAtoi(n); !ok {
					return errVerifJSON
				}
			}
			*d = o
			return nil
		}
	default:
		panic("verif: JSON decoding into this type is not modelled")
	}
	return errVerifJSON
}

// ---- construction of a zkDCS over the fake ----

func verifZKConfig(host string) *ZookeeperConfig {
	return &ZookeeperConfig{Hostname: host, Namespace: "/ns", SessionTimeout: 2_000_000_000, LockHeldTTL: 30_000_000_000, BackoffMaxRetries: 2}
}

func verifZKLogger() *log.Logger {
	l := zerolog.Nop()
	return &l
}

func newVerifZkDCS(cfg *ZookeeperConfig, c *verifZKClient) *zkDCS {
	z := &zkDCS{config: cfg, logger: verifZKLogger(), disconnectCallback: func() error { return nil }, isConnected: true}
	verifConns[z] = c
	return z
}

// verifInstallRetry replaces the backoff-driven retry by a bounded loop that
// honours backoff.Permanent (no sleeping, at most BackoffMaxRetries retries).
func verifInstallRetry() {
	VerifHook_retry = func(config *ZookeeperConfig, operation func() error) error {
		var err error
		for i := uint64(0); ; i++ {
			err = operation()
			if err == nil {
				return nil
			}
			var perm *backoff.PermanentError
			if errors.As(err, &perm) {
				return perm.Err
			}
			if i >= config.BackoffMaxRetries {
				return err
			}
			verifnd.Event("retry")
		}
	}
}
