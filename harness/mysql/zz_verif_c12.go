package mysql

// C12 — quorum arithmetic. Decided over the full machine-word range: the list
// is an opaque slice of symbolic length n (only len() is ever taken by the code
// under test; any other use is an engine error), w and p are arbitrary ints.

import (
	"time"

	"github.com/yandex/mysync/internal/config"
	"github.com/yandex/mysync/internal/verifnd"
)

func verifC12Helper() (ISwitchHelper, int, bool) {
	w := verifnd.Int("w", 0, 1<<62)
	semi := verifnd.Bool("semisync")
	cfg := &config.Config{RplSemiSyncMasterWaitForSlaveCount: w, SemiSync: semi, PriorityChoiceMaxLag: time.Second}
	// every other switch of the configuration is arbitrary: the arithmetic depends on (n, w, semi_sync) only
	cfg.ForceSwitchover = verifnd.Bool("cfg.force_switchover")
	cfg.ASync = verifnd.Bool("cfg.async")
	cfg.Failover = verifnd.Bool("cfg.failover")
	cfg.ReplMon = verifnd.Bool("cfg.repl_mon")
	cfg.ManagerSwitchover = verifnd.Bool("cfg.manager_switchover")
	cfg.ResetupCrashedHosts = verifnd.Bool("cfg.resetup_crashed_hosts")
	cfg.MasterFirstAdjustSSOrder = verifnd.Bool("cfg.master_first")
	cfg.DisableSemiSyncReplicationOnMaintenance = verifnd.Bool("cfg.disable_ss_on_maintenance")
	cfg.AsyncAllowedLag = time.Duration(verifnd.Int("cfg.async_allowed_lag_ns", 0, 1<<42))
	sh := NewSwitchHelper(cfg)
	// the lag bound of candidate selection (C14): the configured one, widened by the async allowed lag
	lag := sh.GetPriorityChoiceMaxLag()
	verifnd.Assert(verifnd.And(lag >= cfg.PriorityChoiceMaxLag, verifnd.Implies(cfg.ASync, lag >= cfg.AsyncAllowedLag)), "q.lag-bound")
	verifnd.Assert(verifnd.Or(lag == cfg.PriorityChoiceMaxLag, verifnd.And(cfg.ASync, lag == cfg.AsyncAllowedLag)), "q.lag-bound")
	return sh, w, semi
}

// H_C12_arith: required count and quorum relations for every (n, w).
func H_C12_arith() {
	sh, w, _ := verifC12Helper()
	n := verifnd.Int("n", 0, 1<<62)
	active := verifnd.OpaqueStrings("active", n)

	r := sh.GetRequiredWaitSlaveCount(active)
	q := sh.GetFailoverQuorum(active)
	replicas := verifnd.IteInt(n >= 1, n-1, 0)

	verifnd.Assert(verifnd.And(r >= 0, r <= replicas), "q.required-le-replicas")
	verifnd.Assert(verifnd.Iff(r == 0, verifnd.Or(n <= 1, w == 0)), "q.required-zero-iff")
	verifnd.Assert(q >= 1, "q.quorum-ge-1")
	verifnd.Assert(q+r > replicas, "q.intersection")
	// tightness: the quorum never demands more nodes than the list has (n>=1)
	verifnd.Assert(verifnd.Implies(n >= 1, q <= n), "q.quorum-le-n")
	verifnd.Reach("C12.arith")
}

// H_C12_check: CheckFailoverQuorum errs exactly when the quorum is missed
// (semi-sync) or no alive active replica exists (async).
func H_C12_check() {
	sh, _, semi := verifC12Helper()
	n := verifnd.Int("n", 0, 1<<62)
	p := verifnd.Int("p", 0, 1<<62)
	active := verifnd.OpaqueStrings("active", n)
	q := sh.GetFailoverQuorum(active)
	err := sh.CheckFailoverQuorum(active, p)
	if err != nil {
		verifnd.Reach("C12.check.err")
	} else {
		verifnd.Reach("C12.check.nil")
	}
	if semi {
		verifnd.Assert(verifnd.Iff(err != nil, p < q), "q.check-semisync")
	} else {
		verifnd.Assert(verifnd.Iff(err != nil, p == 0), "q.check-async")
	}
}
