package gtids

// C13 — GTID relations agree with set semantics. The real representation
// map[uuid.UUID]map[Tag]IntervalSlice is built directly (no text parsing):
// concrete key universe, presence decided per path, symbolic int64 interval
// bounds under the validity predicate R (what ParseMysqlGTIDSet/Normalize
// guarantee): every present UUID has >=1 tag, every tag >=1 interval, intervals
// sorted, 1 <= Start < Stop <= 2^62 and Start[i+1] > Stop[i].
//
// Membership semantics: n ∈ S(u,t) ⇔ ∃i Start_i ≤ n < Stop_i.
// ⇒-directions use a symbolic witness (u,t,n); ⇐-directions use Skolem
// candidates (own interval starts, the other side's stops), quantifier-free.

import (
	"strings"

	"github.com/go-mysql-org/go-mysql/mysql"
	"github.com/google/uuid"
	"github.com/yandex/mysync/internal/verifnd"
)

var (
	verifU1 = uuid.UUID{0x11, 1, 1, 1, 1, 1, 1, 1, 1, 1, 1, 1, 1, 1, 1, 1}
	verifU2 = uuid.UUID{0x22, 2, 2, 2, 2, 2, 2, 2, 2, 2, 2, 2, 2, 2, 2, 2}
	verifU3 = uuid.UUID{0x33, 3, 3, 3, 3, 3, 3, 3, 3, 3, 3, 3, 3, 3, 3, 3}
)

const verifMaxGno = int64(1) << 62

func verifUUIDs() []uuid.UUID {
	us := []uuid.UUID{verifU1, verifU2, verifU3}
	return us[:verifnd.Param("uuids", 2)]
}

func verifTags() []mysql.Tag {
	ts := []mysql.Tag{{}, mysql.NewTag("t")}
	return ts[:verifnd.Param("tags", 1)]
}

// verifIntervals: 1..maxIv intervals satisfying R.
func verifIntervals(label string, maxIv int) mysql.IntervalSlice {
	k := 1 + verifnd.Choose(label+".n", maxIv)
	s := make(mysql.IntervalSlice, k)
	prevStop := int64(0)
	for i := 0; i < k; i++ {
		st := verifnd.Int64(label + ".start")
		sp := verifnd.Int64(label + ".stop")
		verifnd.Assume(verifnd.And(verifnd.And(st >= 1, st < sp), sp <= verifMaxGno))
		if i > 0 {
			verifnd.Assume(st > prevStop)
		}
		s[i] = mysql.Interval{Start: st, Stop: sp}
		prevStop = sp
	}
	return s
}

// verifSet builds an arbitrary valid GTID set over the universe.
func verifSet(label string) *mysql.MysqlGTIDSet {
	maxIv := verifnd.Param("intervals", 2)
	s := mysql.NewMysqlGTIDSet()
	for ui, u := range verifUUIDs() {
		for ti, t := range verifTags() {
			l := label + ".u" + string(rune('0'+ui)) + "t" + string(rune('0'+ti))
			if verifnd.Choose(l+".present", 2) == 1 {
				if s[u] == nil {
					s[u] = map[mysql.Tag]mysql.IntervalSlice{}
				}
				s[u][t] = verifIntervals(l, maxIv)
			}
		}
	}
	return &s
}

func verifInSlice(s mysql.IntervalSlice, n int64) bool {
	r := false
	for _, iv := range s {
		r = verifnd.Or(r, verifnd.And(iv.Start <= n, n < iv.Stop))
	}
	return r
}

func verifMember(s *mysql.MysqlGTIDSet, u uuid.UUID, t mysql.Tag, n int64) bool {
	tm, ok := (*s)[u]
	if !ok {
		return false
	}
	return verifInSlice(tm[t], n)
}

// verifHasDiffWitness: ∃ candidate in a∖b among the Skolem candidates
// (starts of a's intervals and stops of b's intervals).
func verifHasDiffWitness(a, b *mysql.MysqlGTIDSet) bool {
	r := false
	for u, tm := range *a {
		for t, ivs := range tm {
			var cands []int64
			for _, iv := range ivs {
				cands = append(cands, iv.Start)
			}
			if btm, ok := (*b)[u]; ok {
				for _, iv := range btm[t] {
					cands = append(cands, iv.Stop)
				}
			}
			for _, c := range cands {
				r = verifnd.Or(r, verifnd.And(verifInSlice(ivs, c), verifnd.Not(verifMember(b, u, t, c))))
			}
		}
	}
	return r
}

func verifWitness() (uuid.UUID, mysql.Tag, int64) {
	us := verifUUIDs()
	ts := verifTags()
	u := us[verifnd.Choose("w.uuid", len(us))]
	t := ts[verifnd.Choose("w.tag", len(ts))]
	n := verifnd.Int64("w.n")
	return u, t, n
}

// H_C13_relations: behind-or-equal ⇔ ⊆ ; ahead ⇔ ¬⊆.
// H_C13_relations_tags: the same obligation over one server UUID with two tag keys.
func H_C13_relations_tags() { H_C13_relations() }

func H_C13_relations() {
	slave := verifSet("s")
	master := verifSet("m")
	be := IsSlaveBehindOrEqual(slave, master)
	ahead := IsSlaveAhead(slave, master)
	verifnd.Assert(ahead == !be, "ahead.iff-not-behind")
	if be {
		verifnd.Reach("C13.behind")
		u, t, n := verifWitness()
		verifnd.Assert(verifnd.Implies(verifMember(slave, u, t, n), verifMember(master, u, t, n)), "behind.implies-subset")
	} else {
		verifnd.Reach("C13.ahead")
		verifnd.Assert(verifHasDiffWitness(slave, master), "behind.subset-implies")
	}
}

// H_C13_split: ⊆ ⇒ never split-brained; foreign extra transaction ⇒ always.
func H_C13_split() {
	slave := verifSet("s")
	master := verifSet("m")
	us := []uuid.UUID{verifU1, verifU2, verifU3}
	mu := us[verifnd.Choose("masterUUID", verifnd.Param("uuids", 2)+1)]
	sb := IsSplitBrained(slave, master, mu)
	if sb {
		verifnd.Reach("C13.split")
		// contrapositive of "subset ⇒ not split-brained"
		verifnd.Assert(verifHasDiffWitness(slave, master), "split.subset-never")
	} else {
		verifnd.Reach("C13.nosplit")
		u, t, n := verifWitness()
		if u != mu {
			verifnd.Assert(verifnd.Not(verifnd.And(verifMember(slave, u, t, n), verifnd.Not(verifMember(master, u, t, n)))), "split.foreign-always")
		}
	}
}

func verifValidSlice(s mysql.IntervalSlice) bool {
	r := true
	for i, iv := range s {
		r = verifnd.And(r, iv.Start < iv.Stop)
		if i > 0 {
			r = verifnd.And(r, iv.Start > s[i-1].Stop)
		}
	}
	return r
}

// H_C13_minus_slice: intervalSliceMinus(a,b) is valid and n ∈ result ⇔ n ∈ a ∧ n ∉ b.
func H_C13_minus_slice() {
	maxIv := verifnd.Param("intervals", 2)
	a := verifIntervals("a", maxIv)
	var b mysql.IntervalSlice
	if verifnd.Choose("b.empty", 2) == 0 {
		b = verifIntervals("b", maxIv)
	}
	d := intervalSliceMinus(a, b)
	if len(d) == 0 {
		verifnd.Reach("C13.minus.empty")
	} else {
		verifnd.Reach("C13.minus.nonempty")
	}
	n := verifnd.Int64("w.n")
	verifnd.Assert(verifnd.Iff(verifInSlice(d, n), verifnd.And(verifInSlice(a, n), verifnd.Not(verifInSlice(b, n)))), "minus.semantics")
	verifnd.Assert(verifValidSlice(d), "minus.R")
}

// H_C13_diff: the set difference names exactly a∖b, and GTIDDiff picks its
// message by exactly the emptiness of the two differences.
// H_C13_diff_tags: the same obligation over one server UUID with two tag keys (untagged + tagged).
func H_C13_diff_tags() { H_C13_diff() }

func H_C13_diff() {
	replica := verifSet("r")
	source := verifSet("s")
	ds := mysqlGTIDSetMinus(source, replica)
	dr := mysqlGTIDSetMinus(replica, source)
	u, t, n := verifWitness()
	verifnd.Assert(verifnd.Iff(verifMember(ds, u, t, n), verifnd.And(verifMember(source, u, t, n), verifnd.Not(verifMember(replica, u, t, n)))), "diff.source-minus-replica")
	verifnd.Assert(verifnd.Iff(verifMember(dr, u, t, n), verifnd.And(verifMember(replica, u, t, n), verifnd.Not(verifMember(source, u, t, n)))), "diff.replica-minus-source")
	// no empty entries in the differences (so "no keys" ⇔ empty ⇔ String()=="")
	for _, d := range []*mysql.MysqlGTIDSet{ds, dr} {
		for _, tm := range *d {
			verifnd.Assert(len(tm) > 0, "diff.no-empty-uuid")
			for _, ivs := range tm {
				verifnd.Assert(len(ivs) > 0, "diff.no-empty-tag")
				verifnd.Assert(verifValidSlice(ivs), "diff.R")
			}
		}
	}
	msg, err := GTIDDiff(replica, source)
	verifnd.Assert(err == nil, "diff.no-error")
	srcAhead := len(*ds) > 0
	repAhead := len(*dr) > 0
	switch {
	case !srcAhead && !repAhead:
		verifnd.Reach("C13.diff.equal")
		verifnd.Assert(msg == "replica gtid equal source", "diff.case")
	case srcAhead && !repAhead:
		verifnd.Reach("C13.diff.source-ahead")
		verifnd.Assert(strings.HasPrefix(msg, "source ahead on: "), "diff.case")
	case srcAhead && repAhead:
		verifnd.Reach("C13.diff.split")
		verifnd.Assert(strings.HasPrefix(msg, "split brain! source ahead on: ") && strings.Contains(msg, "; replica ahead on: "), "diff.case")
	default:
		verifnd.Reach("C13.diff.replica-ahead")
		verifnd.Assert(strings.HasPrefix(msg, "replica ahead on: "), "diff.case")
	}
}
