package mysql

// C08, node level — the contract the Lost-state check relies on: SetReadOnly /
// setReadonlyWithTimeout return nil only if the statement was accepted AND the
// verification query afterwards reported the requested flags. The cut is at the
// private funnels execWithTimeout / queryRowWithTimeout; everything above runs
// for real. (SetReadOnlyWithForce's kill-loop goroutine is outside: its last
// step is this same setReadonlyWithTimeout.)

import (
	"context"
	"time"

	"github.com/rs/zerolog"
	"github.com/yandex/mysync/internal/config"
	"github.com/yandex/mysync/internal/verifnd"
)

func H_C08_node_readonly() {
	cfg := &config.Config{
		Queries:             map[string]string{},
		DBTimeout:           5 * time.Second,
		DBSetRoTimeout:      30 * time.Second,
		DBSetRoForceTimeout: 30 * time.Second,
	}
	l := zerolog.Nop()
	n, _ := NewNode(cfg, &l, "h0")

	super := verifnd.Bool("want.super_read_only")
	viaForceTimeout := verifnd.Choose("entry", 2) == 1 // SetReadOnly, or the forced variant's last step

	// what the server answers
	execFails := verifnd.Bool("statement.fails")
	verifyFails := verifnd.Bool("verification.fails")
	repRO := verifnd.Int("verification.read_only", 0, 1)
	repSRO := verifnd.Int("verification.super_read_only", 0, 1)

	var stmts []string
	verifications := 0
	otherReads := 0
	VerifHook_Node_execWithTimeout = func(n *Node, queryName string, arg map[string]any, timeout time.Duration) error {
		stmts = append(stmts, queryName)
		if execFails {
			return context.DeadlineExceeded
		}
		return nil
	}
	VerifHook_Node_execMogrifyWithTimeout = func(n *Node, queryName string, arg map[string]any, timeout time.Duration) error {
		stmts = append(stmts, queryName)
		return nil
	}
	VerifHook_Node_queryRowWithTimeout = func(n *Node, queryName string, arg any, result any, timeout time.Duration) error {
		if queryName != queryIsReadOnly {
			otherReads++
			return context.DeadlineExceeded
		}
		verifications++
		if verifyFails {
			return context.DeadlineExceeded
		}
		r := result.(*readOnlyResult)
		r.ReadOnly, r.SuperReadOnly = repRO, repSRO
		return nil
	}
	VerifHook_Node_queryRowMogrifyWithTimeout = func(n *Node, queryName string, arg map[string]any, result any, timeout time.Duration) error {
		otherReads++
		return context.DeadlineExceeded
	}

	var err error
	if viaForceTimeout {
		err = n.setReadonlyWithTimeout(super, cfg.DBSetRoForceTimeout)
	} else {
		err = n.SetReadOnly(super)
	}

	// exactly one statement, the one for the requested flavour; nothing else is touched
	verifnd.Assert(len(stmts) == 1, "node.ro-one-statement")
	if len(stmts) == 1 {
		if super {
			verifnd.Assert(stmts[0] == querySetReadonly, "node.ro-flavour")
		} else {
			verifnd.Assert(stmts[0] == querySetReadonlyNoSuper, "node.ro-flavour")
		}
	}
	verifnd.Assert(otherReads == 0, "node.ro-one-statement")

	if err == nil {
		verifnd.Reach("C08.node.nil")
		verifnd.Assert(verifnd.Not(execFails), "node.ro-nil-means-accepted")
		verifnd.Assert(verifications >= 1, "node.ro-nil-means-verified")
		verifnd.Assert(verifnd.Not(verifyFails), "node.ro-nil-means-verified")
		verifnd.Assert(repRO == 1, "node.ro-nil-means-verified")
		verifnd.Assert(verifnd.Iff(repSRO == 1, super), "node.ro-nil-means-verified")
	} else {
		verifnd.Reach("C08.node.error")
	}
}
