package mysql

// C08, node level — the contract the Lost-state check relies on: SetReadOnly /
// setReadonlyWithTimeout return nil only if the statement was accepted AND the
// verification query afterwards reported the requested flags. The cut is at the
// private funnels execWithTimeout / queryRowWithTimeout; everything above runs
// for real. (SetReadOnlyWithForce's kill-loop goroutine is outside: its last
// step is this same setReadonlyWithTimeout.)

import (
	"context"
	"database/sql"
	"errors"
	"time"

	mysqldriver "github.com/go-sql-driver/mysql"
	"github.com/jmoiron/sqlx"
	"github.com/rs/zerolog"
	"github.com/yandex/mysync/internal/config"
	"github.com/yandex/mysync/internal/verifnd"
)

func H_C08_node_readonly() {
	cfg := &config.Config{
		Queries:             map[string]string{},
		DBTimeout:           5 * time.Second,
		DBSetRoTimeout:      30 * time.Second,
		DBSetRoForceTimeout: 30 * time.Second,
	}
	l := zerolog.Nop()
	n, _ := NewNode(cfg, &l, "h0")

	super := verifnd.Bool("want.super_read_only")
	viaForceTimeout := verifnd.Choose("entry", 2) == 1 // SetReadOnly, or the forced variant's last step

	// what the server answers
	execFails := verifnd.Bool("statement.fails")
	verifyFails := verifnd.Bool("verification.fails")
	repRO := verifnd.Int("verification.read_only", 0, 1)
	repSRO := verifnd.Int("verification.super_read_only", 0, 1)

	var stmts []string
	verifications := 0
	otherReads := 0
	VerifHook_Node_execWithTimeout = func(n *Node, queryName string, arg map[string]any, timeout time.Duration) error {
		stmts = append(stmts, queryName)
		if execFails {
			return context.DeadlineExceeded
		}
		return nil
	}
	VerifHook_Node_execMogrifyWithTimeout = func(n *Node, queryName string, arg map[string]any, timeout time.Duration) error {
		stmts = append(stmts, queryName)
		return nil
	}
	VerifHook_Node_queryRowWithTimeout = func(n *Node, queryName string, arg any, result any, timeout time.Duration) error {
		if queryName != queryIsReadOnly {
			otherReads++
			return context.DeadlineExceeded
		}
		verifications++
		if verifyFails {
			return context.DeadlineExceeded
		}
		r := result.(*readOnlyResult)
		r.ReadOnly, r.SuperReadOnly = repRO, repSRO
		return nil
	}
	VerifHook_Node_queryRowMogrifyWithTimeout = func(n *Node, queryName string, arg map[string]any, result any, timeout time.Duration) error {
		otherReads++
		return context.DeadlineExceeded
	}

	var err error
	if viaForceTimeout {
		err = n.setReadonlyWithTimeout(super, cfg.DBSetRoForceTimeout)
	} else {
		err = n.SetReadOnly(super)
	}

	// exactly one statement, the one for the requested flavour; nothing else is touched
	verifnd.Assert(len(stmts) == 1, "node.ro-one-statement")
	if len(stmts) == 1 {
		if super {
			verifnd.Assert(stmts[0] == querySetReadonly, "node.ro-flavour")
		} else {
			verifnd.Assert(stmts[0] == querySetReadonlyNoSuper, "node.ro-flavour")
		}
	}
	verifnd.Assert(otherReads == 0, "node.ro-one-statement")

	if err == nil {
		verifnd.Reach("C08.node.nil")
		verifnd.Assert(verifnd.Not(execFails), "node.ro-nil-means-accepted")
		verifnd.Assert(verifications >= 1, "node.ro-nil-means-verified")
		verifnd.Assert(verifnd.Not(verifyFails), "node.ro-nil-means-verified")
		verifnd.Assert(repRO == 1, "node.ro-nil-means-verified")
		verifnd.Assert(verifnd.Iff(repSRO == 1, super), "node.ro-nil-means-verified")
	} else {
		verifnd.Reach("C08.node.error")
	}
}

// H_C08_funnels — the four query funnels of *Node themselves (inner cut, see
// zz_verif_funnels.go): the error a statement ends with reaches the caller in a form the
// callers' classification still recognises. stateLost, SetReadOnly and the switchover code
// tell a client-side deadline (errors.Is context.DeadlineExceeded), a lock-wait timeout and
// other server errors (errors.As *MySQLError with its number) and an empty result
// (sql.ErrNoRows) apart; every harness built on the fleet model assumes this transparency.
func H_C08_funnels() {
	cfg := &config.Config{
		Queries:             map[string]string{},
		DBTimeout:           5 * time.Second,
		DBSetRoTimeout:      30 * time.Second,
		DBSetRoForceTimeout: 30 * time.Second,
	}
	l := zerolog.Nop()
	n, _ := NewNode(cfg, &l, "h0")
	VerifHook_Node_execWithTimeout, VerifHook_Node_execMogrifyWithTimeout = nil, nil
	VerifHook_Node_queryRowWithTimeout, VerifHook_Node_queryRowMogrifyWithTimeout = nil, nil
	VerifHook_Node_GetDB = func(n *Node) (*sqlx.DB, error) { return nil, nil }
	VerifHook_Node_traceQuery = func(n *Node, query string, arg any, result any, err error) {}
	VerifHook_Mogrify = func(query string, arg map[string]any) string { return query }

	// what the server does with the statement
	const (
		oOK = iota
		oDeadline
		oLockWait
		oServerErr
		oRefused
		oNoRows
		oCursorBroke
	)
	outcome := verifnd.Choose("outcome", 7)
	lockTimeoutFails := verifnd.Choose("lock-timeout-statement.fails", 2) == 1
	var seen []string
	verifInner = func(n *Node, kind, queryName string, arg any, result any) error {
		seen = append(seen, kind+":"+queryName)
		if queryName == querySetLockTimeout {
			if lockTimeoutFails {
				return ErrVerifRefused
			}
			return nil
		}
		switch outcome {
		case oDeadline:
			return context.DeadlineExceeded
		case oLockWait:
			return verifMyErr(1205)
		case oServerErr:
			return verifMyErr(1064)
		case oRefused:
			return ErrVerifRefused
		case oNoRows:
			if kind == "query" {
				return sql.ErrNoRows
			}
			return nil
		case oCursorBroke:
			if kind == "query" {
				return &verifRowsError{ErrVerifRefused}
			}
			return nil
		}
		if r, ok := result.(*readOnlyResult); ok {
			r.ReadOnly, r.SuperReadOnly = 1, 1
		}
		return nil
	}

	funnel := verifnd.Choose("funnel", 4)
	var err error
	var res readOnlyResult
	isExec := funnel < 2
	switch funnel {
	case 0:
		err = n.execWithTimeout(querySetReadonly, nil, cfg.DBSetRoTimeout)
	case 1:
		err = n.execMogrifyWithTimeout(queryStopReplica, map[string]any{"channel": ""}, cfg.DBTimeout)
	case 2:
		err = n.queryRowWithTimeout(queryIsReadOnly, nil, &res, cfg.DBTimeout)
	case 3:
		err = n.queryRowMogrifyWithTimeout(queryIsReadOnly, map[string]any{"channel": ""}, &res, cfg.DBTimeout)
	}
	verifnd.Fact("funnel", []string{"execWithTimeout", "execMogrifyWithTimeout", "queryRowWithTimeout", "queryRowMogrifyWithTimeout"}[funnel])

	if funnel == 0 && lockTimeoutFails {
		// the preparatory SET lock_wait_timeout failed: the statement itself must not be sent
		verifnd.Assert(err != nil, "funnel.lock-timeout-error-returned")
		verifnd.Assert(len(seen) == 1, "funnel.nothing-after-failed-preparation")
		verifnd.Reach("C08.funnel.preparation-failed")
		return
	}
	// the statement was sent exactly once
	sent := 0
	for _, s := range seen {
		if s != "exec:"+querySetLockTimeout {
			sent++
		}
	}
	verifnd.Assert(sent == 1, "funnel.statement-sent-once")

	var me *mysqldriver.MySQLError
	switch outcome {
	case oOK:
		verifnd.Assert(err == nil, "funnel.ok-is-nil")
		if !isExec {
			verifnd.Assert(res.ReadOnly == 1 && res.SuperReadOnly == 1, "funnel.row-delivered")
		}
		verifnd.Reach("C08.funnel.ok")
	case oDeadline:
		verifnd.Assert(err != nil && errors.Is(err, context.DeadlineExceeded), "funnel.deadline-recognisable")
		verifnd.Reach("C08.funnel.deadline")
	case oLockWait:
		verifnd.Assert(err != nil && errors.As(err, &me) && me.Number == 1205, "funnel.server-error-recognisable")
		verifnd.Assert(err == nil || !errors.Is(err, context.DeadlineExceeded), "funnel.server-error-not-a-deadline")
		verifnd.Reach("C08.funnel.lockwait")
	case oServerErr:
		verifnd.Assert(err != nil && errors.As(err, &me) && me.Number == 1064, "funnel.server-error-recognisable")
	case oRefused:
		verifnd.Assert(err != nil && errors.Is(err, ErrVerifRefused), "funnel.connection-error-returned")
	case oCursorBroke:
		if isExec {
			verifnd.Assert(err == nil, "funnel.ok-is-nil")
		} else {
			// a result set that breaks before the first row is an error, not an empty result
			verifnd.Assert(err != nil && err != sql.ErrNoRows && errors.Is(err, ErrVerifRefused), "funnel.broken-cursor-is-an-error")
			verifnd.Reach("C08.funnel.cursor-broke")
		}
	case oNoRows:
		if isExec {
			verifnd.Assert(err == nil, "funnel.ok-is-nil")
		} else {
			verifnd.Assert(err == sql.ErrNoRows, "funnel.empty-result-is-no-rows")
			verifnd.Reach("C08.funnel.norows")
		}
	}
}
