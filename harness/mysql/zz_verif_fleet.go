package mysql

// Fake MySQL fleet (DESIGN §3.1), at the level of the private query funnels of
// *Node: every exported Node method runs for real on top of it. One VerifServer
// per host holds the ground truth (read_only, offline_mode, replication
// config/threads, executed/retrieved GTID bit-sets, semi-sync variables,
// durability settings). Statements follow the SQL text in queries.go.

import (
	"context"
	"database/sql"
	"errors"
	"time"

	mysqldriver "github.com/go-sql-driver/mysql"
	"github.com/google/uuid"
	"github.com/yandex/mysync/internal/util"
	"github.com/yandex/mysync/internal/verifnd"
)

type VerifServer struct {
	Host     string
	Alive    bool // reachable; false: every statement fails with "connection refused"
	ReadOnly bool
	SuperRO  bool
	Offline  bool
	// replication configuration (SHOW REPLICA STATUS); IsReplica=false ⇒ no rows
	IsReplica  bool
	Source     string
	IORunning  bool
	SQLRunning bool
	IOErrno    int
	SQLErrno   int
	Executed   uint64 // GTID bit-set
	Retrieved  uint64
	LagValid   bool
	Lag        float64
	LogFile    string
	ReadPos    int64
	// semi-sync
	SSMaster  bool
	SSSlave   bool
	WaitCount int
	// durability
	Flush      int
	SyncBinlog int
	// misc
	UUIDIdx     int
	OwnBits     uint64 // transactions this server may originate
	WaitingAck  bool   // commits stuck waiting for semi-sync ack
	StartupNS   int64
	Binlogs     []Binlog
	DiskUsed    uint64
	DiskTotal   uint64
	DiskErr     bool
	FSReadonly  bool
	ReplMonTS   string
	ReplMonLag  int64
	Events      []Event
	Statements  int // mutating statements received
	RoRefuses   bool // SET read_only blocks (lock wait) unless forced after offline+semisync disable
	ChangedTo   []string
	ResetSlaves int
	Reads       int // read statements received (queryRow funnel)
}

type VerifFleet struct {
	Servers map[string]*VerifServer
	Hosts   []string
	// fault injection
	FaultBudget int
	FaultKinds  int // 0: none; 1: {deadline}; 2: +{applied-but-lost for mutators}; 3: +{1205, dubious 1040, other}
	FaultsUsed  []string
	// FaultMutatingOnly: inject faults only into mutating statements (bound for quick tiers)
	FaultMutatingOnly bool
	// FaultOnly: when set, inject faults only into this statement (e.g. "ping")
	FaultOnly string
	// PingFailed: the latest ping of the host failed (the caller cannot reach it)
	PingFailed map[string]bool
	// environment steps between calls
	Havoc bool
	// Eager: fair deterministic environment — before every GTID read every running IO thread has
	// retrieved everything its (alive) source executed and every running SQL thread has applied it
	Eager bool
	// ApplyAfterSleeps: in Eager mode, SQL threads apply nothing until the code under test has
	// slept this many times (applying relay logs takes time: a replica that needs polls to catch up)
	ApplyAfterSleeps int
	// Checkpoint is called after every mutating statement took effect (or failed).
	Checkpoint func(host, stmt string)
	// Before is called when a mutating statement arrives, before it takes effect.
	Before func(host, stmt string)
	// OnCall is called when any statement (read or write) arrives, before faults and effects.
	OnCall func(host, stmt string)
	Log    []string
	// LogReads: also record read statements in the event log
	LogReads bool
	Quiet    bool
}

var VerifW *VerifFleet

var verifUUIDs = []uuid.UUID{
	{0xa1, 1, 1, 1, 1, 1, 1, 1, 1, 1, 1, 1, 1, 1, 1, 1},
	{0xb2, 2, 2, 2, 2, 2, 2, 2, 2, 2, 2, 2, 2, 2, 2, 2},
	{0xc3, 3, 3, 3, 3, 3, 3, 3, 3, 3, 3, 3, 3, 3, 3, 3},
	{0xd4, 4, 4, 4, 4, 4, 4, 4, 4, 4, 4, 4, 4, 4, 4, 4},
	{0xe5, 5, 5, 5, 5, 5, 5, 5, 5, 5, 5, 5, 5, 5, 5, 5},
	{0xf6, 6, 6, 6, 6, 6, 6, 6, 6, 6, 6, 6, 6, 6, 6, 6},
}

func VerifUUID(i int) uuid.UUID { return verifUUIDs[i] }

func NewVerifFleet(hosts []string) *VerifFleet {
	f := &VerifFleet{Servers: map[string]*VerifServer{}, Hosts: hosts}
	for i, h := range hosts {
		f.Servers[h] = &VerifServer{Host: h, Alive: true, UUIDIdx: i, Flush: 1, SyncBinlog: 1, LogFile: "bin.1", DiskTotal: 100}
	}
	return f
}

var (
	ErrVerifRefused = errors.New("dial tcp: connection refused")
)

func verifMyErr(n uint16) error { return &mysqldriver.MySQLError{Number: n, Message: "injected"} }

// fault decides whether this call fails. Returns (err, applied): applied reports
// whether a mutating statement still takes effect.
func (f *VerifFleet) fault(host, stmt string, mutating bool) (error, bool) {
	s := f.Servers[host]
	if s == nil {
		// statement to a host without a server (unregistered decoy): report and refuse
		verifnd.Event("stmt-to-unknown-host " + host + " " + stmt)
		return ErrVerifRefused, false
	}
	if !s.Alive {
		return ErrVerifRefused, false
	}
	if f.FaultBudget <= 0 || f.FaultKinds == 0 || (f.FaultMutatingOnly && !mutating) || (f.FaultOnly != "" && f.FaultOnly != stmt) {
		return nil, true
	}
	n := 1
	switch {
	case f.FaultKinds >= 3:
		n = 5
		if mutating {
			n = 6
		}
	case f.FaultKinds == 2:
		n = 2
		if mutating {
			n = 3
		}
	default:
		n = 2
	}
	k := verifnd.Choose("fault."+host+"."+stmt, n)
	if k == 0 {
		return nil, true
	}
	f.FaultBudget--
	kind := ""
	var err error
	applied := false
	switch {
	case k == 1:
		kind, err = "deadline", context.DeadlineExceeded
	case k == 2 && mutating:
		kind, err, applied = "applied-but-lost", context.DeadlineExceeded, true
	default:
		// FaultKinds >= 3
		idx := k
		if mutating {
			idx--
		}
		switch idx {
		case 2:
			kind, err = "err1205", verifMyErr(1205)
		case 3:
			kind, err = "dubious1040", verifMyErr(1040)
		default:
			kind, err = "err1064", verifMyErr(1064)
		}
	}
	f.FaultsUsed = append(f.FaultsUsed, host+":"+stmt+":"+kind)
	verifnd.Fact("fault", stmt+":"+kind)
	if !f.Quiet {
		verifnd.Event("fault " + host + " " + stmt + " " + kind)
	}
	return err, applied
}

// havoc: spontaneous environment steps that mysync does not control.
func (f *VerifFleet) havoc() {
	if f.Eager {
		stalled := f.ApplyAfterSleeps > 0 && verifnd.SleepCount < f.ApplyAfterSleeps
		if stalled {
			verifnd.Reach("fleet.slow-poll")
		}
		for pass := 0; pass < 2; pass++ {
			for _, h := range f.Hosts {
				s := f.Servers[h]
				if !s.IsReplica || !s.Alive {
					continue
				}
				if src := f.Servers[s.Source]; src != nil && src.Alive && s.IORunning {
					s.Retrieved |= src.Executed
				}
				if s.SQLRunning && !stalled {
					s.Executed |= s.Retrieved
				}
			}
		}
		return
	}
	if !f.Havoc {
		return
	}
	// commits on writable, online, alive servers (own transactions only)
	for _, h := range f.Hosts {
		s := f.Servers[h]
		nw := uint64(verifnd.Byte("havoc.commit." + h))
		can := verifnd.And(verifnd.And(s.Alive, verifnd.Not(s.ReadOnly)), verifnd.Not(s.Offline))
		s.Executed = verifnd.IteUint64(can, s.Executed|(nw&s.OwnBits), s.Executed)
	}
	// replication: IO thread retrieves any subset of what the source has; SQL thread applies retrieved
	for _, h := range f.Hosts {
		s := f.Servers[h]
		if !s.IsReplica {
			continue
		}
		src := f.Servers[s.Source]
		if src != nil {
			got := uint64(verifnd.Byte("havoc.io." + h))
			can := verifnd.And(verifnd.And(s.Alive, s.IORunning), src.Alive)
			s.Retrieved = verifnd.IteUint64(can, s.Retrieved|(got&src.Executed), s.Retrieved)
		}
		ap := uint64(verifnd.Byte("havoc.sql." + h))
		can := verifnd.And(s.Alive, s.SQLRunning)
		s.Executed = verifnd.IteUint64(can, s.Executed|(ap&s.Retrieved), s.Executed)
	}
}

func (f *VerifFleet) note(host, stmt string) {
	f.Log = append(f.Log, host+":"+stmt)
	if !f.Quiet {
		verifnd.Event("sql " + host + " " + stmt)
	}
}

func b2i(b bool) int {
	if b {
		return 1
	}
	return 0
}

func yesno(b bool) string {
	if b {
		return "Yes"
	}
	return "No"
}

// ---- reads ----

func (f *VerifFleet) queryRow(n *Node, q string, arg any, result any) error {
	host := n.host
	if f.OnCall != nil {
		f.OnCall(host, q)
	}
	if err, _ := f.fault(host, q, false); err != nil {
		if q == queryPing {
			if f.PingFailed == nil {
				f.PingFailed = map[string]bool{}
			}
			f.PingFailed[host] = true
		}
		return err
	}
	s := f.Servers[host]
	if q == queryPing && f.PingFailed != nil {
		f.PingFailed[host] = false
	}
	s.Reads++
	if f.LogReads {
		verifnd.Event("read " + host + " " + q)
	}
	switch q {
	case queryPing:
		result.(*pingResult).Ok = 1
	case queryGetVersion:
		*result.(*Version) = Version{MajorVersion: 8, MinorVersion: 0, PatchVersion: 30}
	case queryIsReadOnly:
		r := result.(*readOnlyResult)
		r.ReadOnly, r.SuperReadOnly = b2i(s.ReadOnly), b2i(s.SuperRO)
	case queryGetOfflineMode:
		result.(*offlineModeStatus).OfflineMode = b2i(s.Offline)
	case queryGTIDExecuted:
		f.havoc()
		result.(*GTIDExecuted).ExecutedGtidSet = verifnd.GTIDString(s.Executed)
	case queryGetUUID:
		result.(*ServerUUIDResult).ServerUUID = verifUUIDs[s.UUIDIdx].String()
	case querySemiSyncStatus:
		r := result.(*SemiSyncStatus)
		r.MasterEnabled, r.SlaveEnabled, r.WaitSlaveCount = b2i(s.SSMaster), b2i(s.SSSlave), s.WaitCount
	case queryGetReplicationSettings:
		r := result.(*ReplicationSettings)
		r.InnodbFlushLogAtTrxCommit, r.SyncBinlog = s.Flush, s.SyncBinlog
	case queryReplicaStatus, querySlaveStatus:
		if !s.IsReplica {
			return sql.ErrNoRows
		}
		f.havoc()
		lag := sql.NullFloat64{Float64: s.Lag, Valid: s.LagValid}
		switch r := result.(type) {
		case *ReplicaStatusStruct:
			*r = ReplicaStatusStruct{SourceHost: s.Source, SourceLogFile: s.LogFile, ReadSourceLogPos: s.ReadPos,
				ReplicaIORunning: yesno(s.IORunning), ReplicaSQLRunning: yesno(s.SQLRunning),
				RetrievedGtidSet: verifnd.GTIDString(s.Retrieved), ExecutedGtidSet: verifnd.GTIDString(s.Executed),
				LastIOErrno: s.IOErrno, LastSQLErrno: s.SQLErrno, Lag: lag}
		case *SlaveStatusStruct:
			*r = SlaveStatusStruct{MasterHost: s.Source, MasterLogFile: s.LogFile, ReadMasterLogPos: s.ReadPos,
				SlaveIORunning: yesno(s.IORunning), SlaveSQLRunning: yesno(s.SQLRunning),
				RetrievedGtidSet: verifnd.GTIDString(s.Retrieved), ExecutedGtidSet: verifnd.GTIDString(s.Executed),
				LastIOErrno: s.IOErrno, LastSQLErrno: s.SQLErrno, Lag: lag}
		default:
			panic("fake mysql: unexpected replica status destination")
		}
	case queryReplicationLag:
		if !s.IsReplica {
			return sql.ErrNoRows
		}
		result.(*replicationLag).Lag = sql.NullFloat64{Float64: s.Lag, Valid: s.LagValid}
	case queryGetReplMonTS:
		result.(*ReplMonTS).Timestamp = s.ReplMonTS
	case queryCalcReplMonTSDelay:
		result.(*ReplMonTSDelay).Delay = s.ReplMonLag
	case queryGetExternalReplicationSettings:
		return sql.ErrNoRows
	default:
		panic("fake mysql: query not modelled: " + q)
	}
	return nil
}

// ---- writes ----

func (f *VerifFleet) exec(n *Node, q string, arg map[string]any) error {
	host := n.host
	if f.OnCall != nil {
		f.OnCall(host, q)
	}
	if f.Before != nil && f.Servers[host] != nil {
		f.Before(host, q)
	}
	err, applied := f.fault(host, q, true)
	if applied {
		f.apply(host, q, arg)
	}
	if f.Checkpoint != nil && f.Servers[host] != nil {
		f.Checkpoint(host, q)
	}
	return err
}

func (f *VerifFleet) apply(host, q string, arg map[string]any) {
	s := f.Servers[host]
	s.Statements++
	stmt := q
	switch q {
	case querySetReadonly:
		s.ReadOnly, s.SuperRO = true, true
	case querySetReadonlyNoSuper:
		s.ReadOnly, s.SuperRO = true, false
	case querySetWritable:
		s.ReadOnly, s.SuperRO = false, false
	case queryEnableOfflineMode:
		s.Offline = true
	case queryDisableOfflineMode:
		s.Offline = false
	case queryStopSlave, queryStopReplica:
		s.IORunning, s.SQLRunning = false, false
	case queryStartSlave, queryStartReplica:
		if s.IsReplica {
			s.IORunning = verifnd.And(s.IOErrno == 0, true)
			s.SQLRunning = verifnd.And(s.SQLErrno == 0, true)
		}
	case queryStopSlaveIOThread, queryStopReplicaIOThread:
		s.IORunning = false
	case queryStartSlaveIOThread, queryStartReplicaIOThread:
		if s.IsReplica {
			s.IORunning = s.IOErrno == 0
		}
	case queryStopSlaveSQLThread, queryStopReplicaSQLThread:
		s.SQLRunning = false
	case queryStartSlaveSQLThread, queryStartReplicaSQLThread:
		if s.IsReplica {
			s.SQLRunning = s.SQLErrno == 0
		}
	case queryResetSlaveAll, queryResetReplicaAll:
		s.IsReplica, s.Source, s.IORunning, s.SQLRunning, s.IOErrno, s.SQLErrno = false, "", false, false, 0, 0
		s.Retrieved = 0
		s.LagValid = false
		s.ResetSlaves++
	case queryChangeMaster, queryChangeSource:
		src, _ := arg["host"].(string)
		s.IsReplica, s.Source = true, src
		s.IORunning, s.SQLRunning = false, false
		s.IOErrno, s.SQLErrno = 0, 0
		s.Retrieved = 0
		s.ChangedTo = append(s.ChangedTo, src)
		stmt = q + "(" + src + ")"
	case querySemiSyncSetMaster:
		s.SSMaster, s.SSSlave = true, false
	case querySemiSyncSetSlave:
		s.SSSlave, s.SSMaster = true, false
	case querySemiSyncDisable:
		s.SSSlave, s.SSMaster = false, false
		s.WaitingAck = false
	case querySetSemiSyncWaitSlaveCount:
		c, _ := arg["wait_slave_count"].(int)
		s.WaitCount = c
	case querySetInnodbFlushLogAtTrxCommit:
		c, _ := arg["level"].(int)
		s.Flush = c
	case querySetSyncBinlog:
		c, _ := arg["sync_binlog"].(int)
		s.SyncBinlog = c
	case queryKillQuery, queryEnableEvent, queryCreateReplMonTable, queryUpdateReplMon:
	default:
		panic("fake mysql: statement not modelled: " + q)
	}
	f.note(host, stmt)
}

// VerifInstall points every hook of the instrumented view at fleet f.
func VerifInstall(f *VerifFleet) {
	VerifW = f
	VerifHook_Node_queryRowWithTimeout = func(n *Node, queryName string, arg any, result any, timeout time.Duration) error {
		return f.queryRow(n, queryName, arg, result)
	}
	VerifHook_Node_queryRowMogrifyWithTimeout = func(n *Node, queryName string, arg map[string]any, result any, timeout time.Duration) error {
		return f.queryRow(n, queryName, arg, result)
	}
	VerifHook_Node_execWithTimeout = func(n *Node, queryName string, arg map[string]any, timeout time.Duration) error {
		return f.exec(n, queryName, arg)
	}
	VerifHook_Node_execMogrifyWithTimeout = func(n *Node, queryName string, arg map[string]any, timeout time.Duration) error {
		return f.exec(n, queryName, arg)
	}
	VerifHook_Node_Close = func(n *Node) error { return nil }
	VerifHook_Node_runCommand = func(n *Node, name string) (int, error) { return 0, nil }
	VerifHook_Node_GetBinlogs = func(n *Node) ([]Binlog, error) {
		if err, _ := f.fault(n.host, "binary_logs", false); err != nil {
			return nil, err
		}
		return f.Servers[n.host].Binlogs, nil
	}
	VerifHook_Node_getRunningQueryIDs = func(n *Node, excludeUsers []string, timeout time.Duration) ([]int, error) {
		return nil, nil
	}
	VerifHook_Node_ReenableEvents = func(n *Node) ([]Event, error) {
		if err, _ := f.fault(n.host, "reenable_events", false); err != nil {
			return nil, err
		}
		return f.Servers[n.host].Events, nil
	}
	VerifHook_Node_GetExternalReplicationSources = func(n *Node) (*[]ReplicationSource, error) { return nil, sql.ErrNoRows }
	VerifHook_Node_GetDiskUsage = func(n *Node) (uint64, uint64, error) {
		s := f.Servers[n.host]
		if s == nil || s.DiskErr {
			return 0, 0, errors.New("statfs failed")
		}
		return s.DiskUsed, s.DiskTotal, nil
	}
	VerifHook_Node_IsFileSystemReadonly = func(n *Node) (bool, error) {
		s := f.Servers[n.host]
		if s == nil {
			return false, errors.New("no such host")
		}
		return s.FSReadonly, nil
	}
	VerifHook_Node_GetDaemonStartTime = func(n *Node) (time.Time, error) { return time.Time{}, errors.New("not modelled") }
	VerifHook_Node_GetCrashRecoveryTime = func(n *Node) (time.Time, error) { return time.Time{}, errors.New("not modelled") }
	VerifHook_Node_IsWaitingSemiSyncAck = func(n *Node) (bool, error) {
		if err, _ := f.fault(n.host, "has_waiting_semi_sync_ack", false); err != nil {
			return false, err
		}
		return f.Servers[n.host].WaitingAck, nil
	}
	VerifHook_Node_GetStartupTime = func(n *Node) (time.Time, error) {
		if err, _ := f.fault(n.host, "get_last_startup_time", false); err != nil {
			return time.Time{}, err
		}
		return verifnd.TimeAt(f.Servers[n.host].StartupNS), nil
	}
	VerifHook_Node_UpdateExternalCAFile = func(n *Node) error { return nil }
	// SetReadOnlyWithForce: the three graceful attempts and the kill loop are
	// collapsed into one forced attempt through the real setReadonlyWithTimeout
	// (contract: nil ⇒ the verification query reported the requested flags).
	VerifHook_Node_SetReadOnlyWithForce = func(n *Node, excludeUsers []string, superReadOnly bool) error {
		verifnd.Event("force-ro " + n.host)
		return n.setReadonlyWithTimeout(superReadOnly, n.config.DBSetRoForceTimeout)
	}
	VerifHook_Node_GetDB = nil
	VerifHook_Node_processQuery = nil
	VerifHook_Node_processQueryMogrify = nil
	util.VerifHook_RunParallel = func(fn func(string) error, arguments []string) map[string]error {
		res := make(map[string]error)
		for _, a := range arguments {
			res[a] = fn(a)
		}
		return res
	}
}
