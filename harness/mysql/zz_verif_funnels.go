package mysql

// Inner cut of the four query funnels of *Node (instrumenter: funcRewrites). With a funnel's
// hook nil its real body runs — query lookup, timeout context, lock-timeout arithmetic, the
// rows protocol, error propagation — and only the sqlx calls, the context and the rows cursor
// are the functions below. verifInner is the database behind them.

import (
	"context"
	"database/sql"
	"errors"
	"time"

	"github.com/jmoiron/sqlx"
)

// verifInner answers one statement: kind is "exec" or "query"; for a query the row is stored
// into result (nil error), sql.ErrNoRows means an empty result set.
var verifInner func(n *Node, kind, queryName string, arg any, result any) error

type verifCtx struct {
	err     error
	timeout time.Duration
}

func (c *verifCtx) Deadline() (time.Time, bool) { return time.Time{}, false }
func (c *verifCtx) Done() <-chan struct{}       { return nil }
func (c *verifCtx) Err() error                  { return c.err }
func (c *verifCtx) Value(key any) any           { return nil }

var _ context.Context = (*verifCtx)(nil)

func verifCtxWithTimeout(timeout time.Duration) (*verifCtx, func()) {
	return &verifCtx{timeout: timeout}, func() {}
}

// a call that ends with the client's deadline leaves the context expired
func (c *verifCtx) note(err error) error {
	if errors.Is(err, context.DeadlineExceeded) {
		c.err = context.DeadlineExceeded
	}
	return err
}

func verifDBExec(n *Node, db *sqlx.DB, ctx *verifCtx, queryName string, args ...any) (sql.Result, error) {
	return nil, ctx.note(verifInner(n, "exec", queryName, args, nil))
}

func verifDBNamedExec(n *Node, db *sqlx.DB, ctx *verifCtx, queryName string, arg any) (sql.Result, error) {
	return nil, ctx.note(verifInner(n, "exec", queryName, arg, nil))
}

type verifRows struct {
	has, consumed, closed bool
	err                   error // the cursor broke before a row could be read (rows.Err())
}

// verifRowsError: returned by verifInner for a query whose result set breaks mid-way: the call
// itself succeeds, Next() reports no row and Err() reports the error.
type verifRowsError struct{ Err error }

func (e *verifRowsError) Error() string { return "cursor: " + e.Err.Error() }

func (r *verifRows) Next() bool {
	if r.has && !r.consumed {
		r.consumed = true
		return true
	}
	return false
}
func (r *verifRows) StructScan(dest any) error { return nil }
func (r *verifRows) Err() error               { return r.err }
func (r *verifRows) Close() error             { r.closed = true; return nil }

var verifOpenRows int // cursors opened and not closed

func verifDBQueryRow(n *Node, db *sqlx.DB, ctx *verifCtx, queryName string, arg any, result any) (*verifRows, error) {
	err := verifInner(n, "query", queryName, arg, result)
	switch {
	case err == nil:
		return &verifRows{has: true}, nil
	case err == sql.ErrNoRows:
		return &verifRows{}, nil
	}
	var re *verifRowsError
	if errors.As(err, &re) {
		return &verifRows{err: ctx.note(re.Err)}, nil
	}
	return nil, ctx.note(err)
}
