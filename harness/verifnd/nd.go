// Package verifnd is the nondeterminism / assertion API used by the verification
// harnesses. Under the symbolic executor every function here is an engine
// intrinsic (the bodies below are NOT interpreted). Compiled natively, the
// functions replay a recorded assignment (file named by $VERIF_REPLAY): the
// n-th call with a given label returns the n-th recorded value for that label.
package verifnd

import (
	"encoding/json"
	"fmt"
	"math"
	"os"
	"runtime"
	"strconv"
	"sync"
	"time"
)

type NDValue struct {
	Label string `json:"label"`
	Occ   int    `json:"occ"`
	Kind  string `json:"kind"`
	Value string `json:"value"`
}

type ReplayFile struct {
	Property string            `json:"property"`
	Harness  string            `json:"harness"`
	AssertID string            `json:"assert_id"`
	Kind     string            `json:"kind"`
	Msg      string            `json:"msg"`
	Pos      string            `json:"pos"`
	Func     string            `json:"func"`
	Trace    []NDValue         `json:"trace"`
	Events   []string          `json:"events"`
	Facts    map[string]string `json:"facts"`
	Stack    []string          `json:"stack"`
	Params   map[string]int    `json:"params"`
}

var (
	mu       sync.Mutex
	loaded   bool
	values   map[string][]string
	occ      map[string]int
	Replay   ReplayFile
	Failed   []string // assertion ids that failed natively
	Events   []string
	Reached  []string
	Facts    = map[string]string{}
	Diverged []string
)

func load() {
	if loaded {
		return
	}
	loaded = true
	values = map[string][]string{}
	occ = map[string]int{}
	path := os.Getenv("VERIF_REPLAY")
	if path == "" {
		return
	}
	b, err := os.ReadFile(path)
	if err != nil {
		panic("verifnd: cannot read replay file: " + err.Error())
	}
	if err := json.Unmarshal(b, &Replay); err != nil {
		panic("verifnd: bad replay file: " + err.Error())
	}
	for _, v := range Replay.Trace {
		for len(values[v.Label]) <= v.Occ {
			values[v.Label] = append(values[v.Label], "")
		}
		values[v.Label][v.Occ] = v.Value
	}
}

// Reset clears the replay position (for repeated attempts in one process).
func Reset() {
	mu.Lock()
	defer mu.Unlock()
	loaded = false
	load()
	Failed, Events, Reached, Diverged = nil, nil, nil, nil
	Facts = map[string]string{}
	clockStarted, clockNS, SleepCount, MaxSleeps = false, 0, 0, 0
	SinceNS = nil
	OnSleep = nil
	ConcreteClockStep = 0
	ClockAbs, ClockFrozen, clockFrozen = false, false, false
	clockFrozen = false
	Files = map[string]string{}
	FileWrites = nil
	Timers = nil
	Tickers, OnNewTicker = nil, nil
}

func next(label string) (string, bool) {
	mu.Lock()
	defer mu.Unlock()
	load()
	n := occ[label]
	occ[label] = n + 1
	vs := values[label]
	if n >= len(vs) || vs[n] == "" {
		Diverged = append(Diverged, fmt.Sprintf("%s#%d", label, n))
		return "", false
	}
	return vs[n], true
}

func Symbolic() bool { return false }

// GoroutineBaseline / ParkedGoroutines: leak observation. Under the symbolic executor
// ParkedGoroutines is the number of goroutines of the code under test that are blocked on a
// channel for good at this moment (cooperative schedule, engine/symx/sched.go). Natively it is
// the number of goroutines above the baseline after giving the runnable ones time to finish.
var goroutineBase int

func GoroutineBaseline() { goroutineBase = runtime.NumGoroutine() }

func ParkedGoroutines() int {
	n := 0
	for k := 0; k < 50; k++ {
		time.Sleep(2 * time.Millisecond)
		n = runtime.NumGoroutine() - goroutineBase
		if n <= 0 {
			return 0
		}
	}
	return n
}

func Bool(label string) bool {
	v, ok := next(label)
	return ok && v == "true"
}

func Int(label string, lo, hi int) int {
	v, ok := next(label)
	if !ok {
		return lo
	}
	n, _ := strconv.ParseInt(v, 10, 64)
	return int(n)
}

func Int64(label string) int64 {
	v, ok := next(label)
	if !ok {
		return 0
	}
	n, _ := strconv.ParseInt(v, 10, 64)
	return n
}

func Uint64(label string) uint64 {
	v, ok := next(label)
	if !ok {
		return 0
	}
	n, _ := strconv.ParseUint(v, 10, 64)
	return n
}

func Byte(label string) byte {
	v, ok := next(label)
	if !ok {
		return 0
	}
	n, _ := strconv.ParseUint(v, 10, 8)
	return byte(n)
}

func Float(label string) float64 {
	v, ok := next(label)
	if !ok {
		return 0
	}
	switch v {
	case "+Inf":
		return math.Inf(1)
	case "-Inf":
		return math.Inf(-1)
	case "NaN":
		return math.NaN()
	}
	f, _ := strconv.ParseFloat(v, 64)
	return f
}

func Choose(label string, n int) int {
	v, ok := next(label)
	if !ok {
		return 0
	}
	k, _ := strconv.Atoi(v)
	if k >= n {
		return 0
	}
	return k
}

// Assume: natively a violated assumption means the replay diverged.
func Assume(c bool) {
	if !c {
		mu.Lock()
		Diverged = append(Diverged, "assume-false")
		mu.Unlock()
		panic(AssumeFailed{})
	}
}

type AssumeFailed struct{}

// Constrain is Assume for a range constraint on a FRESH draw that is satisfiable
// by construction: the engine adds it to the path condition without a
// feasibility query. Natively identical to Assume.
func Constrain(c bool) { Assume(c) }

func Assert(c bool, id string) {
	if !c {
		mu.Lock()
		Failed = append(Failed, id)
		mu.Unlock()
	}
}

func Reach(id string) { mu.Lock(); Reached = append(Reached, id); mu.Unlock() }
func Event(s string)  { mu.Lock(); Events = append(Events, s); mu.Unlock() }
func Fact(k, v string) {
	mu.Lock()
	Facts[k] = v
	mu.Unlock()
}

func And(a, b bool) bool     { return a && b }
func Or(a, b bool) bool      { return a || b }
func Not(a bool) bool        { return !a }
func Implies(a, b bool) bool { return !a || b }
func Iff(a, b bool) bool     { return a == b }

func IteInt(c bool, a, b int) int {
	if c {
		return a
	}
	return b
}
func IteInt64(c bool, a, b int64) int64 {
	if c {
		return a
	}
	return b
}
func IteUint64(c bool, a, b uint64) uint64 {
	if c {
		return a
	}
	return b
}
func IteFloat(c bool, a, b float64) float64 {
	if c {
		return a
	}
	return b
}
func IteBool(c bool, a, b bool) bool {
	if c {
		return a
	}
	return b
}

func IsConcrete(v any) bool { return true }

// TimeAt builds the instant ns nanoseconds after the Unix epoch.
func TimeAt(ns int64) time.Time { return time.Unix(0, ns) }

// UnixNano is the inverse of TimeAt.
func UnixNano(t time.Time) int64 { return t.UnixNano() }

func NoopCancel() {}

// LoopLimit: under the symbolic executor, an activation of fn (short name as in
// the report's Funcs keys, e.g. "(*app.App).findBestStreamFrom") that enters any
// one of its basic blocks more than n times on a feasible path is reported as the
// termination violation "termination@fn" (an unwinding assertion turned into a
// finding). n <= 0 clears the bound. Natively it arms a watchdog instead: if the
// bound is still armed after 2 s the process exits with status 124, which the
// replayer reads as "did not terminate" (a real non-terminating loop is stopped
// before it eats the machine's memory).
func LoopLimit(fn string, n int) {
	mu.Lock()
	defer mu.Unlock()
	if t := loopWatch[fn]; t != nil {
		t.Stop()
		delete(loopWatch, fn)
	}
	if n > 0 {
		loopWatch[fn] = time.AfterFunc(2*time.Second, func() {
			fmt.Fprintln(os.Stderr, "verifnd: "+fn+" still running after 2s: treated as non-termination")
			os.Exit(124)
		})
	}
}

var loopWatch = map[string]*time.Timer{}

// OpaqueStrings is a slice of n strings of which only the length may be observed.
func OpaqueStrings(label string, n int) []string { return make([]string, n) }

// Param returns a bound chosen by the check tier (recorded in the replay file).
func Param(name string, def int) int {
	mu.Lock()
	defer mu.Unlock()
	load()
	if v, ok := Replay.Params[name]; ok {
		return v
	}
	return def
}

// ---------------------------------------------------------------------------
// Symbolic clock (DESIGN §3.4). These bodies ARE interpreted (they are built
// from the intrinsics above), so the same code runs symbolically and natively.

var (
	clockStarted bool
	clockNS      int64
	clockFrozen  bool
)

// ClockFreeze(true) stops the clock at its current reading: Now/Since keep returning the
// same instant (and draw nothing) until ClockFreeze(false). For harnesses that reason about
// a step in which the code under test compares against the clock once: every comparison
// then uses the very instant the oracle speaks about.
func ClockFreeze(on bool) {
	if !clockStarted {
		Now()
	}
	clockFrozen = on
}

const (
	clockMax  = int64(1) << 61
	clockStep = int64(1) << 50
)

// ClockFrozen: while true, Now() returns the current reading without advancing it
// (same effect as ClockFreeze(true); kept as a variable for harnesses that set it directly).
var ClockFrozen bool

// ClockAbs selects the cheaper clock formulation (set it at the start of a
// harness): every reading is max(previous reading, fresh instant in [1, 2^61)),
// i.e. still an arbitrary non-decreasing clock, but the solver sees comparisons
// of instants instead of sums of steps, and no Assume (= no solver round trip)
// is needed per reading. Draw label: "clock.at". Default off (old behaviour).
var ClockAbs bool

func nowAbs() time.Time {
	x := Int64("clock.at") & (clockMax - 1)
	x = IteInt64(x == 0, 1, x)
	clockNS = IteInt64(x > clockNS, x, clockNS)
	clockStarted = true
	return TimeAt(clockNS)
}

// ConcreteClockStep > 0 switches to a deterministic clock: it starts at 1 s after the
// epoch and every reading advances it by ConcreteClockStep ns (Sleep adds its duration).
// For harnesses whose claim does not depend on timing: no clock draws, no solver
// queries for deadline comparisons. Set it before the first clock reading.
var ConcreteClockStep int64

// Now returns a non-decreasing instant in [1, 2^61+k·2^50) ns after the epoch.
func Now() time.Time {
	if ConcreteClockStep > 0 {
		if !clockStarted {
			clockNS = 1_000_000_000
			clockStarted = true
		}
		clockNS += ConcreteClockStep
		return TimeAt(clockNS)
	}
	if ClockAbs {
		return nowAbs()
	}
	if !clockStarted {
		clockNS = Int64("clock.start")
		Constrain(And(clockNS >= 1, clockNS < clockMax))
		clockStarted = true
	}
	if clockFrozen || ClockFrozen {
		return TimeAt(clockNS)
	}
	d := Int64("clock.step")
	Constrain(And(d >= 0, d < clockStep))
	clockNS += d
	return TimeAt(clockNS)
}

// ClockNS returns the current clock reading without advancing it.
func ClockNS() int64 {
	if !clockStarted {
		Now()
	}
	return clockNS
}

// SinceNS lists the instants read by Since, in call order, so that an oracle can
// refer to exactly the instant the code under test compared against.
var SinceNS []int64

func Since(t time.Time) time.Duration {
	n := Now()
	SinceNS = append(SinceNS, clockNS)
	return n.Sub(t)
}

// MaxSleeps bounds polling loops: from the MaxSleeps-th Sleep on, every Sleep
// additionally advances the clock by ~13 days, so that any deadline-bounded wait
// loop ends (bound "polls"; waits needing more polls are outside the claim).
var (
	MaxSleeps  int
	SleepCount int
	// OnSleep, when set, is called from every Sleep after the clock has advanced (time passes
	// here: the harness may let other processes act). Not re-entered.
	OnSleep func()
)

func onSleep() {
	if f := OnSleep; f != nil {
		OnSleep = nil
		f()
		OnSleep = f
	}
}

// Sleep advances the clock by at least d.
func Sleep(d time.Duration) {
	Now()
	if ConcreteClockStep > 0 {
		if d > 0 {
			clockNS += int64(d)
		}
		SleepCount++
		if MaxSleeps > 0 && SleepCount >= MaxSleeps {
			clockNS += clockStep
		}
		Event("sleep")
		onSleep()
		return
	}
	if clockFrozen {
		Event("sleep")
		onSleep()
		return
	}
	extra := Int64("clock.sleep.extra")
	Constrain(And(extra >= 0, extra < clockStep))
	if d > 0 {
		clockNS += int64(d)
	}
	clockNS += extra
	SleepCount++
	if MaxSleeps > 0 && SleepCount >= MaxSleeps {
		clockNS += clockStep
	}
	Event("sleep")
	onSleep()
}

// ---------------------------------------------------------------------------
// Tickers (DESIGN §2.2, environment channels). time.NewTicker is rewritten to
// NewTicker in the instrumented view: the ticker's channel is an ordinary
// buffered channel that nobody but the harness feeds (c <- time.Time{}), so a
// select of the code under test never has more than the case the harness made
// ready — the same schedule symbolically and natively. OnNewTicker hands a
// ticker created inside the code under test to the harness.

var (
	Tickers     []chan time.Time
	OnNewTicker func(c chan time.Time)
)

func NewTicker(d time.Duration) *time.Ticker {
	if d <= 0 {
		panic("non-positive interval for NewTicker")
	}
	c := make(chan time.Time, 1)
	Tickers = append(Tickers, c)
	t := &time.Ticker{C: c} // Stop on such a ticker is a no-op (time/tick.go)
	if OnNewTicker != nil {
		OnNewTicker(c)
	}
	return t
}

// ---------------------------------------------------------------------------
// Fake file system for the marker files (DESIGN §3.5).

var (
	Files          = map[string]string{}
	ErrFileMissing = errNotExist{}
	FileWrites     []string
)

type errNotExist struct{}

func (errNotExist) Error() string { return "file does not exist" }

func OsWriteFile(name string, data []byte, perm os.FileMode) error {
	Files[name] = string(data)
	FileWrites = append(FileWrites, name)
	Event("file.write " + name)
	return nil
}

func OsStat(name string) (os.FileInfo, error) {
	if _, ok := Files[name]; ok {
		return nil, nil
	}
	return nil, ErrFileMissing
}

func OsRemove(name string) error {
	if _, ok := Files[name]; !ok {
		return ErrFileMissing
	}
	delete(Files, name)
	Event("file.remove " + name)
	return nil
}

func OsReadFile(name string) ([]byte, error) {
	if c, ok := Files[name]; ok {
		return []byte(c), nil
	}
	return nil, ErrFileMissing
}

func OsIsNotExist(err error) bool { _, ok := err.(errNotExist); return ok }
func OsHostname() (string, error) { return "verif-host", nil }
func OsGetpid() int               { return 4242 }

// GTIDString is the injective text encoding of a GTID bit-set: "" for the empty
// set, "g<hex>" otherwise (symbolically: an opaque token supporting equality only).
func GTIDString(bits uint64) string {
	if bits == 0 {
		return ""
	}
	return fmt.Sprintf("g%x", bits)
}

// GTIDBits is the inverse of GTIDString.
func GTIDBits(s string) uint64 {
	if s == "" {
		return 0
	}
	var u uint64
	if _, err := fmt.Sscanf(s, "g%x", &u); err != nil {
		panic("verifnd.GTIDBits: not a GTID token: " + s)
	}
	return u
}

// ---------------------------------------------------------------------------
// Timers (time.AfterFunc): registered, fired by the harness scheduler when the
// clock has passed the deadline.

type PendingTimer struct {
	At      int64
	F       func()
	T       *time.Timer
	Stopped bool
	Fired   bool
}

var Timers []*PendingTimer

// NewIdleTimer returns a *time.Timer that never fires by itself.
func NewIdleTimer() *time.Timer {
	t := time.NewTimer(time.Duration(1) << 62)
	t.Stop()
	return t
}

func AfterFunc(d time.Duration, f func()) *time.Timer {
	t := NewIdleTimer()
	Timers = append(Timers, &PendingTimer{At: ClockNS() + int64(d), F: f, T: t})
	Event("timer armed")
	return t
}

// StopTimer replaces t.Stop() at the instrumented call sites.
func StopTimer(t *time.Timer) bool {
	for _, p := range Timers {
		if p.T == t && !p.Stopped && !p.Fired {
			p.Stopped = true
			return true
		}
	}
	return false
}

// FireDueTimers runs every armed timer whose deadline has passed (clock permitting).
func FireDueTimers() int {
	n := 0
	for _, p := range Timers {
		if !p.Stopped && !p.Fired && ClockNS() >= p.At {
			p.Fired = true
			n++
			Event("timer fired")
			p.F()
		}
	}
	return n
}
