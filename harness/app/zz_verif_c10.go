package app

// C10 — repair converges to the canonical topology without changing the master.
//
// One REAL manager iteration (stateManager: UpdateHostsInfo, getClusterStateFromDB,
// getClusterStateFromDcs, repairOfflineMode, repairCluster, updateActiveNodes, …)
// from an arbitrary per-node pre-state over the fake fleet / fake DCS, with a
// reachable healthy recorded master. Everything below stateManager is the real
// code; the cut is the query funnel of *mysql.Node and dcs.DCS.
//
// Oracle (assertion ids as in DESIGN App. A):
//   safety, on every path, with or without failing statements
//     repair.master-key-untouched  the `master` key holds the same host after every write to the
//                                  coordination store and at the end of the pass
//     repair.registered-only       no statement (read or write) reaches a host that is
//                                  not registered under ha_nodes at the time of the pass
//                                  (decoys: one de-registered host still cached in the
//                                  registry, one never registered; both have health records,
//                                  claim to be master, may be some replica's source)
//     repair.not-self              CHANGE SOURCE on h never names h
//     repair.reset-gated           RESET REPLICA ALL on h  =>  aggressive mode, the host's
//                                  StartSlave attempts are used up (>= max), its ResetSlave
//                                  attempts are not (< max), the cooldown since the last
//                                  attempt has passed; never on the master
//   progress, fault-free passes
//     repair.fixpoint-canonical    a pass that issues no mutating statement leaves a
//                                  canonical cluster (see canonical())
//     repair.statement-corrective  every statement issued corrects a defect present in
//                                  the observed pre-state
//     repair.stale-master-handled  a pass that turns a stale master into a replica leaves
//                                  it offline, read-only and marked for recovery
//     repair.attempt-counted       a repair attempt is counted against its method
//                                  (what makes "attempt limit" in reset-gated meaningful)
//
//   with failing statements, H_C10_stale_master_faults only (violated on the unchanged tree, see RESULTS.md)
//     repair.stale-master-demoted-online / -unmarked
//                                  a stale master that ended the pass as a replica is offline / marked
//
// Entries: H_C10_repair_pass (replica grid), H_C10_master_pass (master flags and
// semi-sync), H_C10_repair_history (attempt counters, cooldown, aggressive mode),
// H_C10_repair_pass_faults (safety with failing statements), H_C10_stale_master_faults
// (what a failing statement does to the stale-master handling); H_C10_repair_pass_order =
// H_C10_repair_pass under bounds that permute the iteration order / add a host.

import (
	"sort"
	"strings"
	"time"

	nodestate "github.com/yandex/mysync/internal/app/node_state"
	"github.com/yandex/mysync/internal/mysql"
	"github.com/yandex/mysync/internal/verifnd"
)

// replication thread classes of a replica in the pre-state
const (
	c10Running    = iota // both threads running, no error
	c10Stopped           // both threads stopped, no error
	c10ErrIO             // IO thread stopped with a transient error (2003)
	c10PermSQL           // SQL thread stopped with a permanent error (1146)
	c10StoppedIO         // only the IO thread stopped, no error
	c10ErrSQL            // SQL thread stopped with a transient error (1062)
	c10PermIO            // IO thread stopped with a permanent error (1236)
	c10StoppedSQL        // only the SQL thread stopped, no error
	c10NumThreads
)

// roles of a registered non-master host in the pre-state
const (
	c10RoleReplica = iota // replica of the recorded master
	c10RoleWrong          // replica of something else (another replica or a decoy)
	c10RoleStale          // not a replica at all: claims to be master (stale master)
	c10RoleDead           // unreachable
)

type c10Hist struct {
	start, reset int   // attempts so far per method (may be symbolic)
	last         int64 // last attempt, ns (may be symbolic)
	lastG        uint64 // GTID set (bits) recorded at the last attempt; 0 = the default {t0}
}

type verifC10 struct {
	w        *verifWorld
	master   string
	replicas []string
	decoys   []string
	reg      map[string]bool
	role     map[string]int
	threads  map[string]int
	pre      map[string]mysql.VerifServer
	hist     map[string]*c10Hist // nil: no repair state for the host
	marked   map[string]bool     // recovery marks at entry
	oldList  []string

	aggressive   bool // may be symbolic
	maxAttempts  int  // may be symbolic
	cooldown     int64
	semiSync     bool
	wcfg         int
	diskCritical bool
	ssRunning    int  // running semi-sync replicas that report disk usage (C18's rule counts them)
	strict       bool // replica statements must all be explained by repair (no semi-sync churn expected)

	tStart    int64
	stmtClock []int64
}

var c10IOErr = map[int]int{c10ErrIO: 2003, c10PermIO: 1236}
var c10SQLErr = map[int]int{c10ErrSQL: 1062, c10PermSQL: 1146}

func c10SetThreads(s *mysql.VerifServer, class int) {
	s.IORunning, s.SQLRunning, s.IOErrno, s.SQLErrno = true, true, 0, 0
	switch class {
	case c10Stopped:
		s.IORunning, s.SQLRunning = false, false
	case c10StoppedIO:
		s.IORunning = false
	case c10StoppedSQL:
		s.SQLRunning = false
	case c10ErrIO, c10PermIO:
		s.IORunning, s.IOErrno = false, c10IOErr[class]
	case c10ErrSQL, c10PermSQL:
		s.SQLRunning, s.SQLErrno = false, c10SQLErr[class]
	}
	// Seconds_Behind_Source is NULL unless both threads run
	s.LagValid, s.Lag = class == c10Running, 0
}

func c10IsStoppedClass(c int) bool { return c == c10Stopped || c == c10StoppedIO || c == c10StoppedSQL }
func c10IsErrorClass(c int) bool {
	return c == c10ErrIO || c == c10ErrSQL || c == c10PermIO || c == c10PermSQL
}
func c10IsPermClass(c int) bool { return c == c10PermIO || c == c10PermSQL }

// remove a node from the fake coordination tree (harness side: an operator de-registers a host)
func (d *verifDCS) verifC10Remove(path string) {
	p := verifNorm(path)
	delete(d.nodes, p)
	delete(d.eph, p)
	for i, q := range d.order {
		if q == p {
			d.order = append(d.order[:i:i], d.order[i+1:]...)
			break
		}
	}
}

// c10Norm maps the 5.7 statement names onto the 8.0 ones.
func c10Norm(stmt string) string {
	switch {
	case strings.HasPrefix(stmt, "change_master("):
		return "change_source(" + stmt[len("change_master("):]
	case stmt == "stop_slave":
		return "stop_replica"
	case stmt == "start_slave":
		return "start_replica"
	case stmt == "reset_slave_all":
		return "reset_replica_all"
	case stmt == "stop_slave_io_thread":
		return "stop_replica_io_thread"
	case stmt == "start_slave_io_thread":
		return "start_replica_io_thread"
	}
	return stmt
}

// c10New builds the world: n registered HA hosts h1..hn (master = h<mi+1>), decoy
// "x" (registered when the registry was last refreshed, de-registered since) and
// decoy "y" (never registered). Both decoys run a server that claims to be master.
func c10New(n, mi int, local int) *verifC10 {
	verifnd.ClockAbs = true
	names := []string{"h1", "h2", "h3", "h4", "h5"}[:n]
	cfg := verifConfig(names[local])
	cfg.SemiSync = false
	cfg.RplSemiSyncMasterWaitForSlaveCount = 1
	w := verifNewWorld(cfg, append(append([]string{}, names...), "x"), nil)
	c := &verifC10{w: w, master: names[mi], reg: map[string]bool{}, role: map[string]int{}, threads: map[string]int{},
		pre: map[string]mysql.VerifServer{}, hist: map[string]*c10Hist{}, marked: map[string]bool{},
		maxAttempts: cfg.ReplicationRepairMaxAttempts, cooldown: int64(cfg.ReplicationRepairCooldown), wcfg: 1, strict: true}
	for i, h := range names {
		c.reg[h] = true
		if i != mi {
			c.replicas = append(c.replicas, h)
		}
	}
	w.ha = names
	// x leaves the cluster: its ha_nodes entry is gone, the registry still caches it
	w.dcs.verifC10Remove("ha_nodes/x")
	// y never was a member but runs a server and publishes health
	w.fleet.Servers["y"] = &mysql.VerifServer{Host: "y", Alive: true, UUIDIdx: 5, Flush: 1, SyncBinlog: 1, LogFile: "bin.1", DiskTotal: 100}
	w.fleet.Hosts = append(w.fleet.Hosts, "y")
	c.decoys = []string{"x", "y"}
	for _, h := range w.fleet.Hosts {
		s := w.fleet.Servers[h]
		s.Executed, s.OwnBits = 1, 0
	}
	// default: canonical cluster
	for _, h := range c.replicas {
		c.setReplica(h, c10RoleReplica, c10Running, c.master)
		s := w.fleet.Servers[h]
		s.ReadOnly, s.SuperRO = true, true
	}
	w.dcs.seed(pathMasterNode, c.master)
	return c
}

func (c *verifC10) setReplica(h string, role, threads int, source string) {
	s := c.w.fleet.Servers[h]
	c.role[h], c.threads[h] = role, threads
	switch role {
	case c10RoleDead:
		s.Alive = false
	case c10RoleStale:
		s.IsReplica, s.Source = false, ""
		s.IORunning, s.SQLRunning, s.IOErrno, s.SQLErrno, s.LagValid = false, false, 0, 0, false
	default:
		s.IsReplica, s.Source = true, source
		c10SetThreads(s, threads)
	}
}

// activeOf: the list a quiet updateActiveNodes would publish for the pre-state.
func (c *verifC10) activeOf() []string {
	l := []string{c.master}
	for _, h := range c.replicas {
		if c.role[h] != c10RoleDead && c.role[h] != c10RoleStale && c.threads[h] == c10Running && !c.marked[h] {
			l = append(l, h)
		}
	}
	sort.Strings(l)
	return l
}

func (c *verifC10) required(list []string) int {
	r := len(list) / 2
	if c.wcfg < r {
		r = c.wcfg
	}
	return r
}

// consistentSemiSync makes the semi-sync flags and the published list agree with
// the pre-state, so that updateActiveNodes has nothing to do (its decisions are C04's).
func (c *verifC10) consistentSemiSync() {
	act := c.activeOf()
	c.oldList = act
	c.w.dcs.seed(pathActiveNodes, act)
	req := c.required(act)
	m := c.w.fleet.Servers[c.master]
	m.SSMaster, m.SSSlave, m.WaitCount = verifnd.And(c.semiSync, req > 0), false, 1
	if req > 0 {
		m.WaitCount = req
	}
	for _, h := range c.replicas {
		s := c.w.fleet.Servers[h]
		s.SSMaster, s.SSSlave = false, verifnd.And(c.semiSync, c10Contains(act, h))
	}
}

func c10Contains(l []string, h string) bool {
	for _, x := range l {
		if x == h {
			return true
		}
	}
	return false
}

// arm: publish health records, snapshot the pre-state and install the safety monitors.
func (c *verifC10) arm() {
	w := c.w
	for _, h := range c.decoys {
		s := w.fleet.Servers[h]
		s.IsReplica, s.ReadOnly, s.SuperRO, s.Offline = false, false, false, false
	}
	verifPublishHealth(w) // registered hosts and x (still cached): what their own mysync last reported
	w.dcs.seed("health/y", &nodestate.NodeState{CheckBy: "y", PingOk: true, IsMaster: true,
		MasterState: &nodestate.MasterState{ExecutedGtidSet: verifnd.GTIDString(1)}})
	// every host's own mysync reports its disk: 10% everywhere, 99% on the master if diskCritical
	c.ssRunning = 0
	for _, h := range append(append([]string{}, w.ha...), "x") {
		v, _ := w.dcs.peek("health/" + h)
		ns := v.(nodestate.NodeState)
		ns.DiskState = &nodestate.DiskState{Used: 10, Total: 100}
		if h == c.master && c.diskCritical {
			ns.DiskState = &nodestate.DiskState{Used: 99, Total: 100}
		}
		w.dcs.seed("health/"+h, ns)
		if h != c.master && c.reg[h] && c.semiSync && ns.PingOk && ns.SemiSyncState != nil && ns.SemiSyncState.SlaveEnabled &&
			ns.SlaveState != nil && ns.SlaveState.ReplicationState == mysql.ReplicationRunning {
			c.ssRunning++
		}
	}
	for h, hs := range c.hist {
		if hs != nil {
			w.app.replRepairState[h] = &ReplicationRepairState{
				LastAttempt:      verifnd.TimeAt(hs.last),
				History:          map[ReplicationRepairAlgorithmType]int{StartSlave: hs.start, ResetSlave: hs.reset},
				LastGTIDExecuted: verifnd.GTIDString(hs.lastG | 1),
			}
		}
	}
	for _, h := range w.fleet.Hosts {
		c.pre[h] = *w.fleet.Servers[h]
		w.fleet.Servers[h].Reads = 0
	}
	for _, h := range c.replicas {
		c.marked[h] = w.dcs.recoveryMarked(h)
	}
	c.marked[c.master] = w.dcs.recoveryMarked(c.master)
	w.dcs.Writes = nil
	w.fleet.Log = nil

	// ---- safety monitors (active with and without faults) ----
	// the recorded master keeps its value after every coordination-store write (and is never deleted)
	w.dcs.Checkpoint = func(op, path string) {
		if path == pathMasterNode {
			verifnd.Reach("C10.master-key-rewritten")
		}
		verifnd.Assert(w.dcs.masterHost() == c.master, "repair.master-key-untouched")
	}
	w.fleet.Before = func(host, stmt string) {
		verifnd.Assert(c.registered(host), "repair.registered-only")
		if q := c10Norm(stmt); q == "reset_replica_all" {
			verifnd.Fact("reset-on", host)
			c.resetGate(host)
		}
	}
	w.fleet.Checkpoint = func(host, stmt string) {
		for len(c.stmtClock) < len(w.fleet.Log) {
			c.stmtClock = append(c.stmtClock, verifnd.ClockNS())
		}
		s := w.fleet.Servers[host]
		for _, src := range s.ChangedTo {
			verifnd.Assert(src != host, "repair.not-self")
		}
	}
	c.tStart = verifnd.ClockNS()
}

// registered: host is in the registry as of its last successful refresh. (Reading decision: when the
// refresh of this very pass failed — only possible with dcsfaults>0 — the de-registered x still counts.)
func (c *verifC10) registered(host string) bool {
	if c.reg[host] {
		return true
	}
	if host == "x" {
		for _, f := range c.w.dcs.Faulted {
			if f == "children ha_nodes" {
				return true
			}
		}
	}
	return false
}

// resetGate: the condition the property puts on resetting a replica's replication configuration,
// evaluated on the repair history as it was when the pass started and the clock at the statement.
func (c *verifC10) resetGate(host string) {
	if host == c.master || !c.reg[host] {
		verifnd.Assert(false, "repair.reset-gated")
		return
	}
	hs := c.hist[host]
	if hs == nil {
		// no history at entry: a fresh one starts with zero StartSlave attempts, so a reset cannot be due
		verifnd.Assert(false, "repair.reset-gated")
		return
	}
	now := verifnd.ClockNS()
	g := verifnd.And(c.aggressive, hs.start >= c.maxAttempts)
	g = verifnd.And(g, hs.reset < c.maxAttempts)
	g = verifnd.And(g, hs.last < now-c.cooldown)
	verifnd.Assert(g, "repair.reset-gated")
	verifnd.Reach("C10.reset")
}

// run executes one real manager iteration.
func (c *verifC10) run() {
	st := c.w.app.stateManager()
	verifnd.Assert(st == stateManager, "sanity.stays-manager")
	// the recorded master is what it was
	verifnd.Assert(c.w.dcs.masterHost() == c.master, "repair.master-key-untouched")
	// nothing reached a decoy: no mutating statement, no read
	for _, h := range c.decoys {
		if c.registered(h) {
			verifnd.Reach("C10.registry-refresh-failed")
			continue
		}
		s := c.w.fleet.Servers[h]
		verifnd.Assert(s.Statements == 0, "repair.registered-only")
		verifnd.Assert(s.Reads == 0, "repair.registered-only")
	}
	for _, e := range c.w.fleet.Log {
		host := e[:strings.Index(e, ":")]
		verifnd.Assert(c.registered(host), "repair.registered-only")
		stmt := c10Norm(e[len(host)+1:])
		if strings.HasPrefix(stmt, "change_source(") {
			verifnd.Assert(stmt != "change_source("+host+")", "repair.not-self")
			// a registered host is only ever pointed at the recorded master
			verifnd.Assert(stmt == "change_source("+c.master+")", "repair.statement-corrective")
		}
		if host == c.master {
			// the master's replication configuration is never touched
			switch stmt {
			case "stop_replica", "start_replica", "reset_replica_all":
				verifnd.Assert(false, "repair.statement-corrective")
			}
			verifnd.Assert(!strings.HasPrefix(stmt, "change_source("), "repair.statement-corrective")
		}
	}
	verifnd.Reach("C10.decoys-ignored")
}

// ---- progress oracle (fault-free passes only) ----

// exhausted: every repair method the mode allows has been tried max times.
func (c *verifC10) exhausted(hs *c10Hist) bool {
	return verifnd.And(hs.start >= c.maxAttempts, verifnd.Or(verifnd.Not(c.aggressive), hs.reset >= c.maxAttempts))
}

// startDue / resetDue: the repair method that is due for host h at clock `at` (weakest form
// that is sound for a non-decreasing clock: the real test happened at or before `at`).
func (c *verifC10) startDue(h string, at int64) bool {
	hs := c.hist[h]
	if hs == nil {
		return true // fresh history (zero attempts); whether its cooldown already passed is the clock's choice
	}
	return verifnd.And(hs.start < c.maxAttempts, hs.last < at-c.cooldown)
}

func (c *verifC10) resetDue(h string, at int64) bool {
	hs := c.hist[h]
	if hs == nil {
		return false
	}
	g := verifnd.And(c.aggressive, hs.start >= c.maxAttempts)
	g = verifnd.And(g, hs.reset < c.maxAttempts)
	return verifnd.And(g, hs.last < at-c.cooldown)
}

// corrective: is statement stmt on replica h the correction of a defect of its pre-state?
func (c *verifC10) corrective(h, stmt string, at int64) bool {
	p := c.pre[h]
	role, th := c.role[h], c.threads[h]
	stale := role == c10RoleStale
	wrong := role == c10RoleWrong
	// (mysync does not try to repair what it classifies as permanently broken; the property does not
	// forbid it, so the same gates are accepted there)
	repairable := role != c10RoleStale && c10IsErrorClass(th)
	reset := false
	start := false
	if repairable {
		reset = c.resetDue(h, at)
		start = c.startDue(h, at)
	}
	switch stmt {
	case "set_readonly":
		return verifnd.Or(verifnd.Not(p.ReadOnly), reset)
	case "enable_offline_mode":
		// (with a known lag the offline-mode policy may also decide it: C17)
		return verifnd.Or(stale || p.LagValid, reset)
	case "disable_offline_mode":
		return p.LagValid // C17's decision
	case "semisync_disable":
		return stale
	case "stop_replica":
		return verifnd.Or(stale || wrong, reset)
	case "change_source(" + c.master + ")":
		return verifnd.Or(stale || wrong, reset)
	case "start_replica":
		ok := stale || wrong || (role == c10RoleReplica && c10IsStoppedClass(th))
		return verifnd.Or(ok, verifnd.Or(start, reset))
	case "reset_replica_all":
		return reset
	}
	return false
}

// masterImplied: does the master's semi-sync setting equal the one implied by list?
func (c *verifC10) masterImplied(list []string) bool {
	m := c.w.fleet.Servers[c.master]
	req := c.required(list)
	on := verifnd.And(m.SSMaster, m.WaitCount == req)
	if req == 0 {
		on = verifnd.Not(m.SSMaster)
	}
	return verifnd.IteBool(c.semiSync, on, verifnd.Not(m.SSMaster))
}

// canonical: the state the property promises, evaluated on the (unchanged) state after a quiet pass.
func (c *verifC10) canonical() {
	w := c.w
	for _, h := range c.replicas {
		role, th := c.role[h], c.threads[h]
		if role == c10RoleDead {
			continue // not reachable
		}
		s := w.fleet.Servers[h]
		verifnd.Fact("fixpoint-host", h)
		verifnd.Assert(s.ReadOnly, "repair.fixpoint-canonical")
		verifnd.Assert(role != c10RoleStale, "repair.fixpoint-canonical")
		verifnd.Assert(role != c10RoleWrong, "repair.fixpoint-canonical")
		if role != c10RoleReplica {
			continue
		}
		verifnd.Assert(s.IsReplica && s.Source == c.master, "repair.fixpoint-canonical")
		if th == c10Running {
			continue
		}
		// not running: only allowed when broken beyond repair, or while a repair attempt is pending its cooldown
		verifnd.Assert(c10IsErrorClass(th), "repair.fixpoint-canonical")
		if c10IsPermClass(th) {
			verifnd.Reach("C10.permanently-broken")
			continue
		}
		hs := c.hist[h]
		if hs == nil {
			// first sight of the error: a history was created now, the first attempt waits for its cooldown
			_, created := w.app.replRepairState[h]
			verifnd.Assert(created, "repair.fixpoint-canonical")
			verifnd.Reach("C10.first-sight")
			continue
		}
		waiting := hs.last >= c.tStart-c.cooldown
		ex := c.exhausted(hs)
		verifnd.Assert(verifnd.Or(ex, waiting), "repair.fixpoint-canonical")
		if ex { // (forks the finished path once, for the two witnesses)
			verifnd.Reach("C10.attempts-exhausted")
		} else {
			verifnd.Reach("C10.cooldown-wait")
		}
	}
	m := w.fleet.Servers[c.master]
	verifnd.Fact("fixpoint-host", c.master)
	verifnd.Assert(verifnd.Or(verifnd.Not(m.Offline), c.marked[c.master]), "repair.fixpoint-canonical")
	// writable unless the disk rule forbids (that it is read-only when the rule demands it is C18's claim)
	verifnd.Assert(verifnd.Implies(verifnd.Not(c.diskForbids()), verifnd.Not(m.ReadOnly)), "repair.fixpoint-canonical")
	list, _ := w.dcs.activeNodes()
	verifnd.Assert(c.masterImplied(list), "repair.fixpoint-canonical")
	verifnd.Assert(!m.IsReplica, "repair.fixpoint-canonical")
}

// progress: the fault-free obligations.
func (c *verifC10) progress() {
	w := c.w
	if len(w.fleet.FaultsUsed) > 0 {
		return
	}
	log := w.fleet.Log
	if len(log) == 0 {
		verifnd.Reach("C10.fixpoint")
		c.canonical()
	}
	touched := map[string]bool{}
	lastAt := map[string]int64{} // clock at the last statement of a kind on a host
	for i, e := range log {
		host := e[:strings.Index(e, ":")]
		stmt := c10Norm(e[len(host)+1:])
		touched[host+":"+stmt] = true
		lastAt[host+":"+stmt] = c.stmtClock[i]
		if !c.reg[host] {
			continue
		}
		verifnd.Fact("statement", e)
		if host == c.master {
			c.masterStatement(stmt)
			continue
		}
		if !c.strict {
			switch stmt {
			case "semisync_set_slave", "semisync_disable", "stop_replica_io_thread", "start_replica_io_thread",
				"stop_replica", "start_replica", "set_innodb_flush_log_at_trx_commit", "set_sync_binlog":
				// semi-sync membership churn and durability settings: decided by updateActiveNodes (C04) / C19
				if c.role[host] != c10RoleStale {
					continue
				}
			}
		}
		verifnd.Assert(c.corrective(host, stmt, c.stmtClock[i]), "repair.statement-corrective")
	}
	for _, h := range c.replicas {
		p := c.pre[h]
		s := w.fleet.Servers[h]
		if touched[h+":set_readonly"] {
			verifnd.Reach("C10.read-only-corrected")
		}
		if c.role[h] == c10RoleWrong && touched[h+":change_source("+c.master+")"] {
			verifnd.Reach("C10.repointed")
		}
		if c.role[h] == c10RoleReplica && c10IsStoppedClass(c.threads[h]) && touched[h+":start_replica"] {
			verifnd.Reach("C10.started")
		}
		if c.role[h] == c10RoleStale {
			// a reachable stale master that this pass turned into a replica is offline, read-only and marked
			verifnd.Fact("stale-master", h)
			if s.IsReplica {
				verifnd.Reach("C10.stale-master")
				ok := verifnd.And(s.Offline, s.ReadOnly)
				verifnd.Assert(verifnd.And(ok, w.dcs.recoveryMarked(h)), "repair.stale-master-handled")
				verifnd.Assert(s.Source == c.master, "repair.stale-master-handled")
			}
		}
		// attempt accounting
		if c.role[h] != c10RoleStale && c.role[h] != c10RoleDead && c10IsErrorClass(c.threads[h]) && !c10IsPermClass(c.threads[h]) {
			hs := c.hist[h]
			now, has := w.app.replRepairState[h]
			if hs != nil && has {
				if touched[h+":reset_replica_all"] {
					verifnd.Assert(now.History[ResetSlave] == hs.reset+1, "repair.attempt-counted")
					verifnd.Assert(now.History[StartSlave] == hs.start, "repair.attempt-counted")
					verifnd.Assert(verifnd.UnixNano(now.LastAttempt) >= lastAt[h+":reset_replica_all"], "repair.attempt-counted")
				} else if touched[h+":start_replica"] && c.role[h] == c10RoleReplica {
					verifnd.Reach("C10.repair-start")
					verifnd.Assert(now.History[StartSlave] == hs.start+1, "repair.attempt-counted")
					verifnd.Assert(verifnd.UnixNano(now.LastAttempt) >= lastAt[h+":start_replica"], "repair.attempt-counted")
				}
			}
		}
		_ = p
	}
}

// diskForbids: C18's rule demands a read-only master — its disk is critical, or the running semi-sync
// replicas with non-critical disks (here: all that report) are fewer than the acknowledgements it waits for.
func (c *verifC10) diskForbids() bool {
	p := c.pre[c.master]
	return verifnd.Or(c.diskCritical, verifnd.And(c.ssRunning > 0, p.WaitCount > c.ssRunning))
}

// masterStatement: statements on the recorded master must be the un-fencing / semi-sync corrections.
func (c *verifC10) masterStatement(stmt string) {
	p := c.pre[c.master]
	ok := false
	switch stmt {
	case "set_writable":
		ok = verifnd.And(p.ReadOnly, verifnd.Not(c.diskForbids()))
		verifnd.Reach("C10.master-writable")
	case "set_readonly", "set_readonly_no_super":
		ok = c.diskForbids()
		verifnd.Reach("C10.master-disk-fenced")
	case "disable_offline_mode":
		ok = verifnd.And(p.Offline, !c.marked[c.master])
		verifnd.Reach("C10.master-online")
	case "semisync_set_master":
		ok = verifnd.And(c.semiSync, verifnd.Not(p.SSMaster))
		verifnd.Reach("C10.master-semisync-adjusted")
	case "set_semisync_wait_slave_count":
		ok = verifnd.And(c.semiSync, p.WaitCount != c.w.fleet.Servers[c.master].WaitCount)
		verifnd.Reach("C10.master-semisync-adjusted")
	case "semisync_disable":
		// plugin on although semi-sync is off in the config, or no acknowledgement is required any more
		ok = verifnd.Or(p.SSMaster, p.SSSlave)
	case "set_innodb_flush_log_at_trx_commit", "set_sync_binlog", "enable_event":
		ok = !c.strict
	}
	verifnd.Assert(ok, "repair.statement-corrective")
}

// ---------------------------------------------------------------------------

// replicaGrid puts replica h into an arbitrary pre-state of the reduced grid.
func (c *verifC10) replicaGrid(h string, nThreads int, withDead, withOffline bool) {
	s := c.w.fleet.Servers[h]
	nRoles := 3
	if withDead {
		nRoles = 4
	}
	role := verifnd.Choose("role."+h, nRoles)
	th := c10Running
	src := c.master
	if role == c10RoleReplica || role == c10RoleWrong {
		th = verifnd.Choose("threads."+h, nThreads)
	}
	if role == c10RoleWrong {
		// some other server: the next replica if there is one, else the de-registered decoy
		// (alternating by position, so that both kinds of wrong source occur without another fork)
		src = "x"
		for i, o := range c.replicas {
			if o == h && i%2 == 1 {
				src = c.replicas[i-1]
			}
		}
	}
	c.setReplica(h, role, th, src)
	if role != c10RoleDead {
		// (flags the code branches on anyway are drawn concretely: same paths, no solver round trips)
		s.ReadOnly = verifnd.Choose("ro."+h, 2) == 1
		s.SuperRO = s.ReadOnly
		if withOffline {
			s.Offline = verifnd.Choose("offline."+h, 2) == 1
		}
	}
}

// H_C10_repair_pass: every registered replica in an arbitrary state of the grid
// {read-only} x {offline} x {stale master | replica of master | replica of another host | dead} x {thread classes};
// master canonical, semi-sync flags consistent with the list (semi-sync on or off).
func H_C10_repair_pass() {
	n := verifnd.Param("hosts", 3)
	mi := 0
	if verifnd.Param("perm", 0) == 1 {
		mi = verifnd.Choose("master.index", n)
	}
	c := c10New(n, mi, 0)
	switch verifnd.Param("semisync", 2) {
	case 1:
		c.semiSync = true
	case 2:
		c.semiSync = verifnd.Choose("cfg.semisync", 2) == 1
	}
	c.w.cfg.SemiSync = c.semiSync
	c.w.app.switchHelper = mysql.NewSwitchHelper(c.w.cfg)
	nThreads := verifnd.Param("threads", 4)
	for _, h := range c.replicas {
		c.replicaGrid(h, nThreads, verifnd.Param("dead", 1) == 1, verifnd.Param("offline", 0) == 1)
	}
	c.consistentSemiSync()
	c.arm()
	c.run()
	c.progress()
}

// H_C10_repair_pass_order: the same obligation registered a second time for the bounds that vary the
// position of the master in the iteration order of repairCluster / repairOfflineMode (perm=1) and the
// number of hosts, on a coarser thread grid.
func H_C10_repair_pass_order() { H_C10_repair_pass() }

// H_C10_master_pass: the recorded master in an arbitrary combination of read-only / super-read-only /
// offline / recovery mark / semi-sync master flag / ack count, disk report critical or absent, the
// published list full or master-only; replicas healthy.
func H_C10_master_pass() {
	n := verifnd.Param("hosts", 3)
	local := 0
	if verifnd.Param("local", 0) == 1 {
		local = verifnd.Choose("local", 2) // the manager runs on the master / on a replica
	}
	c := c10New(n, 0, local)
	c.strict = false
	// (all flags below are branched on by the code anyway: drawn concretely, no solver round trips)
	c.semiSync = verifnd.Choose("cfg.semisync", 2) == 1
	c.wcfg = 1 + verifnd.Choose("cfg.wait_count", verifnd.Param("max_w", 1))
	c.w.cfg.SemiSync = c.semiSync
	c.w.cfg.RplSemiSyncMasterWaitForSlaveCount = c.wcfg
	if verifnd.Param("master_first", 0) == 1 {
		c.w.cfg.MasterFirstAdjustSSOrder = verifnd.Choose("cfg.master_first", 2) == 1
	}
	c.w.cfg.KeepSuperWritableOnCriticalDiskUsage = verifnd.Choose("cfg.keep_super", 2) == 1
	c.w.app.switchHelper = mysql.NewSwitchHelper(c.w.cfg)
	c.consistentSemiSync()
	m := c.w.fleet.Servers[c.master]
	switch verifnd.Choose("ro.master", 3) { // super_read_only implies read_only
	case 1:
		m.ReadOnly = true
	case 2:
		m.ReadOnly, m.SuperRO = true, true
	}
	m.Offline = verifnd.Choose("offline.master", 2) == 1
	m.SSMaster = verifnd.Choose("ss_master.master", 2) == 1
	m.WaitCount = 1 + verifnd.Choose("wait_count.master", 3)
	m.Binlogs = []mysql.Binlog{{Name: "bin.1", Size: 1000}}
	if verifnd.Choose("marked.master", 2) == 1 {
		c.w.dcs.seed(pathRecovery+"/"+c.master, nil)
	}
	c.diskCritical = verifnd.Choose("disk.master", 2) == 1
	if verifnd.Choose("oldlist", 2) == 1 {
		c.oldList = []string{c.master}
		c.w.dcs.seed(pathActiveNodes, c.oldList)
	}
	c.arm()
	c.run()
	c.progress()
	if len(c.w.fleet.FaultsUsed) == 0 && c.marked[c.master] {
		verifnd.Reach("C10.master-marked")
	}
}

// H_C10_repair_history: a replica whose replication is in a (transient) error state, with an arbitrary
// repair history: attempts per method 0..max+1, max 1..3, last attempt at any time, aggressive mode on or off.
func H_C10_repair_history() {
	n := verifnd.Param("hosts", 3)
	c := c10New(n, 0, 0)
	c.aggressive = verifnd.Bool("cfg.aggressive")
	c.maxAttempts = verifnd.Int("cfg.max_attempts", 1, verifnd.Param("max_attempts", 3))
	c.w.cfg.ReplicationRepairAggressiveMode = c.aggressive
	c.w.cfg.ReplicationRepairMaxAttempts = c.maxAttempts
	for i, h := range c.replicas {
		s := c.w.fleet.Servers[h]
		if i > 0 && verifnd.Param("all", 0) == 0 {
			break
		}
		role := verifnd.Choose("role."+h, 2) // replica of the master / of the other host
		th := []int{c10ErrIO, c10ErrSQL, c10PermSQL, c10Running}[verifnd.Choose("threads."+h, 4)]
		src := c.master
		if role == c10RoleWrong {
			src = "x"
		}
		c.setReplica(h, role, th, src)
		s.ReadOnly = verifnd.Choose("ro."+h, 2) == 1
		s.SuperRO = s.ReadOnly
		if verifnd.Choose("history."+h, 2) == 1 {
			hs := &c10Hist{}
			hs.start = verifnd.Int("hist.start."+h, 0, 4)
			hs.reset = verifnd.Int("hist.reset."+h, 0, 4)
			verifnd.Assume(verifnd.And(hs.start <= c.maxAttempts+1, hs.reset <= c.maxAttempts+1))
			hs.last = verifnd.Int64("hist.last." + h)
			verifnd.Assume(verifnd.And(hs.last >= 0, hs.last < int64(1)<<62))
			// what the replica had executed at that attempt, and what it has executed now
			// (the master holds {t0,t1}; a replica holds {t0} or {t0,t1})
			hs.lastG = 1 | uint64(verifnd.Choose("hist.gtid."+h, 2))<<1
			s.Executed = 1 | uint64(verifnd.Choose("gtid.now."+h, 2))<<1
			c.hist[h] = hs
		}
	}
	ms := c.w.fleet.Servers[c.master]
	ms.Executed, ms.OwnBits = 3, 3
	c.w.syncGTIDOwners()
	c.consistentSemiSync()
	c.arm()
	t0 := verifnd.ClockNS()
	c.run()
	// the attempts counted against a replica are forgotten only after the cooldown and only when
	// the replica has executed something it had not executed at the last attempt
	for _, h := range c.replicas {
		hs := c.hist[h]
		if hs == nil {
			continue
		}
		if _, kept := c.w.app.replRepairState[h]; !kept {
			verifnd.Reach("C10.history-forgotten")
			s := c.w.fleet.Servers[h]
			verifnd.Assert(s.Executed&^hs.lastG != 0, "repair.history-forgotten-only-after-progress")
			verifnd.Assert(hs.last < verifnd.ClockNS()-c.cooldown, "repair.history-forgotten-only-after-cooldown")
		} else {
			verifnd.Reach("C10.history-kept")
		}
	}
	_ = t0
	c.progress()
	for _, h := range c.replicas {
		hs := c.hist[h]
		if hs == nil || c.threads[h] == c10Running || c10IsPermClass(c.threads[h]) {
			continue
		}
		quiet := true
		for _, e := range c.w.fleet.Log {
			if strings.HasPrefix(e, h+":") {
				quiet = false
			}
		}
		if quiet && c.role[h] == c10RoleReplica {
			verifnd.Reach("C10.repair-held-back")
		}
	}
}

// faultCase puts replica h into one of the situations in which repair has the most to do.
func (c *verifC10) faultCase(h string, k int) {
	s := c.w.fleet.Servers[h]
	switch k {
	case 1: // writable stale master
		c.setReplica(h, c10RoleStale, c10Running, "")
		s.ReadOnly, s.SuperRO = false, false
	case 2: // writable replica of a decoy, stopped
		c.setReplica(h, c10RoleWrong, c10Stopped, "x")
		s.ReadOnly, s.SuperRO = false, false
	case 3: // broken replica whose StartSlave attempts are used up: a reset is due if the cooldown has passed
		c.setReplica(h, c10RoleReplica, c10ErrIO, c.master)
		hs := &c10Hist{start: 1, reset: 0}
		hs.last = verifnd.Int64("hist.last." + h)
		verifnd.Assume(verifnd.And(hs.last >= 0, hs.last < int64(1)<<62))
		c.hist[h] = hs
	}
}

// H_C10_repair_pass_faults: the safety part (master key, registered hosts only, never self, gated reset)
// with failing / lost-reply statements at arbitrary points of the pass (budget k), over a coarser grid:
// every replica healthy / writable stale master / writable stopped replica of a decoy / broken with a
// reset due; the master canonical or read-only and offline.
func H_C10_repair_pass_faults() {
	n := verifnd.Param("hosts", 3)
	c := c10New(n, 0, 0)
	c.aggressive = true
	c.w.cfg.ReplicationRepairAggressiveMode = true
	c.maxAttempts = 1
	c.w.cfg.ReplicationRepairMaxAttempts = 1
	for i, h := range c.replicas {
		k := 4
		if i > 0 {
			k = verifnd.Param("cases_other", 2) // further replicas: healthy / stale master (/ the other two)
		}
		c.faultCase(h, verifnd.Choose("case."+h, k))
	}
	if verifnd.Choose("case.master", 2) == 1 {
		m := c.w.fleet.Servers[c.master]
		m.ReadOnly, m.SuperRO, m.Offline = true, true, true
	}
	c.consistentSemiSync()
	c.arm()
	c.w.fleet.FaultBudget = verifnd.Param("faults", 1)
	c.w.fleet.FaultKinds = 2
	// optionally: failing coordination-store operations as well (registry refresh, recovery mark, master key read)
	c.w.dcs.FaultBudget = verifnd.Param("dcsfaults", 0)
	c.run()
	if len(c.w.fleet.FaultsUsed) > 0 {
		verifnd.Reach("C10.faulted")
	}
}

// H_C10_stale_master_faults: what a failing statement does to the handling of a stale master. The pass
// turns the stale master into an ordinary replica of the recorded master in any case; if the offline step
// (or, with dcsfaults=1, the recovery mark) failed on the way, no later pass can tell that the host was a
// stale master, so it is never taken offline / marked any more.
func H_C10_stale_master_faults() {
	n := verifnd.Param("hosts", 3)
	c := c10New(n, 0, 0)
	h := c.replicas[0]
	c.faultCase(h, 1)
	c.consistentSemiSync()
	c.arm()
	c.w.fleet.FaultBudget = verifnd.Param("faults", 1)
	c.w.fleet.FaultKinds = 2
	c.w.dcs.FaultBudget = verifnd.Param("dcsfaults", 0)
	c.run()
	s := c.w.fleet.Servers[h]
	if s.IsReplica {
		verifnd.Reach("C10.stale-master-demoted")
		verifnd.Fact("stale-master", h)
		verifnd.Assert(s.Offline, "repair.stale-master-demoted-online")
		verifnd.Assert(c.w.dcs.recoveryMarked(h), "repair.stale-master-demoted-unmarked")
	} else {
		verifnd.Reach("C10.stale-master-kept")
	}
}

var _ = time.Second
