package app

// C01 — promotion only of a caught-up node backed by a frozen quorum.
// The real performSwitchover (all six phases) with everything below it real
// except: updateActiveNodes (subject of C04) and optimizationPhase (C19) are
// intercepted; findMostRecentNodeAndDetectSplitbrain is *spied* (the real body
// runs, its input/result are recorded).
//
// C07-O1 (crash closure), C03 daemon layer and the C11 marking link ride on the
// same runs (assertion ids I7.*, daemon.*, recovery.*).

import (
	"strings"
	"time"

	nodestate "github.com/yandex/mysync/internal/app/node_state"
	"github.com/yandex/mysync/internal/mysql"
	"github.com/yandex/mysync/internal/mysql/gtids"
	"github.com/yandex/mysync/internal/verifnd"
)

var _ = mysql.ReplicationRunning

type verifC01 struct {
	w         *verifWorld
	oldMaster string
	published []string
	sw        *Switchover
	semi      bool
	wcfg      int
	asyncOK   bool // the async escape hatch legitimately applies

	promoted      []string // hosts made writable during the run
	spied         bool
	spyHosts      []string
	expectSplit   bool
	locksAtSpy    int
	locksAtFreeze int
	freezeSeen    bool
	firstPromoteStmtLocks int
	promoteStmtSeen       bool
	lockRefused   bool
	stmtAfterRefusal string
}

func (c *verifC01) union(h string) uint64 {
	s := c.w.fleet.Servers[h]
	return s.Executed | s.Retrieved
}

func (c *verifC01) locks() int {
	n := 0
	for _, a := range c.w.dcs.LockAnswers {
		if a {
			n++
		}
	}
	return n
}

// beforeStatement: checkpoint when a mutating statement ARRIVES at a fake server.
func (c *verifC01) beforeStatement(host, stmt string) {
	if c.lockRefused && c.stmtAfterRefusal == "" {
		c.stmtAfterRefusal = host + ":" + stmt
	}
	switch stmt {
	case "set_readonly", "set_readonly_no_super", "stop_replica_io_thread", "stop_slave_io_thread":
		if !c.spied {
			c.freezeSeen = true
			c.locksAtFreeze = c.locks()
		}
	case "reset_replica_all", "reset_slave_all", "stop_replica", "stop_slave":
		if c.spied && !c.promoteStmtSeen && stmt != "stop_replica" && stmt != "stop_slave" {
			c.promoteStmtSeen = true
			c.firstPromoteStmtLocks = c.locks()
		}
	case "set_writable":
		c.promotion(host)
	}
}

// promotion: the moment 'SET GLOBAL read_only = 0' arrives at host h.
func (c *verifC01) promotion(h string) {
	c.promoted = append(c.promoted, h)
	verifnd.Fact("promoted", h)
	verifnd.Reach("C01.promotion")
	hs := c.w.fleet.Servers[h]
	n := len(c.published)
	quorum := 1
	if c.semi {
		req := n / 2
		if c.wcfg < req {
			req = c.wcfg
		}
		quorum = n - req
		if quorum < 1 {
			quorum = 1
		}
	}
	cnt := 0
	for _, x := range c.published {
		xs := c.w.fleet.Servers[x]
		ok := verifnd.And(xs.ReadOnly, c.union(x)&^hs.Executed == 0)
		if !c.semi && x == h {
			// without semi-sync: "one alive active replica" — the promoted node itself qualifies when caught up
		}
		cnt = verifnd.IteInt(ok, cnt+1, cnt)
	}
	if c.asyncOK {
		verifnd.Reach("C01.async-escape-possible")
		return
	}
	verifnd.Assert(cnt >= quorum, "promote.quorum-frozen-and-contained")
	if len(c.w.fleet.FaultsUsed) == 0 {
		// without failing calls every reachable member of the list is frozen and its position collected:
		// the promoted node has then caught up with all of them (with the most recent one), not only
		// with a quorum — in async mode too, where the quorum is a single replica
		all := true
		for _, x := range c.published {
			if c.sw.Cause == CauseAuto && x == c.oldMaster {
				// an automatic failover deliberately leaves the old master out (it is presumed dead and may
				// hang): it is neither frozen nor asked for its position, whatever state it really is in
				continue
			}
			xs := c.w.fleet.Servers[x]
			all = verifnd.And(all, verifnd.Implies(verifnd.And(xs.Alive, xs.ReadOnly), c.union(x)&^hs.Executed == 0))
		}
		verifnd.Assert(all, "promote.caught-up-with-every-frozen-member")
	}
	// the promoted node must be a member of the published list and never a cascade replica
	verifnd.Assert(verifContains(c.published, h), "promote.member-of-list")
	// C03: promotion only after two lock confirmations (after freeze, after catch-up)
	verifnd.Assert(c.locks() >= 2, "lock.reconfirmed-twice")
	// C11: a host marked for recovery is never promoted
	verifnd.Assert(!c.w.dcs.recoveryMarked(h), "recovery.marked-never-promoted")
}

func H_C01_switchover() {
	nrep := verifnd.Param("replicas", 2)
	master := "m"
	ha := []string{master}
	for i := 0; i < nrep; i++ {
		ha = append(ha, "r"+string(rune('1'+i)))
	}
	local := ha[len(ha)-1] // the manager runs on the last replica's host
	cfg := verifConfig(local)
	mlo := verifnd.Param("mode_lo", 0)
	mode := mlo + verifnd.Choose("cfg.mode", verifnd.Param("modes", 3)-mlo) // 0 semi-sync, 1 plain async, 2 async mode with allowed lag
	cfg.SemiSync = mode == 0
	wcfg := 1 + verifnd.Choose("cfg.wait_count", verifnd.Param("max_w", 1))
	cfg.RplSemiSyncMasterWaitForSlaveCount = wcfg
	if mode == 2 {
		cfg.ASync, cfg.ReplMon = true, true
		cfg.AsyncAllowedLag = 10 * time.Second
	}
	cfg.ForceSwitchover = verifnd.Param("force", 0) == 1 && verifnd.Choose("cfg.force", 2) == 1
	cfg.SlaveCatchUpTimeout = 30 * time.Second
	verifnd.MaxSleeps = verifnd.Param("polls", 2)
	if verifnd.Param("concrete_clock", 1) == 1 {
		// timing is not the subject here: deterministic clock (1 ms per reading), wait loops bounded by `polls`
		verifnd.ConcreteClockStep = 1_000_000
	} else {
		verifnd.ClockAbs = true
	}
	w := verifNewWorld(cfg, ha, nil)
	c := &verifC01{w: w, oldMaster: master, semi: cfg.SemiSync, wcfg: wcfg}

	// ---- ground truth: arbitrary GTID patterns over a small universe ----
	bits := uint64(1)<<uint(verifnd.Param("gtid_bits", 3)) - 1
	for i, h := range ha {
		s := w.fleet.Servers[h]
		s.Executed = uint64(verifnd.Byte("gtid.exec." + h))
		verifnd.Assume(s.Executed&^bits == 0)
		s.OwnBits = 0
		if h == master {
			s.OwnBits = bits
			s.SSMaster, s.WaitCount = cfg.SemiSync, 1
			// the old master: alive or dead, writable or already read-only
			switch verifnd.Choose("master.state", 3) {
			case 0: // alive, writable
			case 1: // dead
				s.Alive = false
			case 2: // alive, read-only already (resumed attempt)
				s.ReadOnly, s.SuperRO = true, true
			}
			continue
		}
		s.ReadOnly, s.SuperRO = true, true
		s.IsReplica, s.Source = true, master
		s.Retrieved = uint64(verifnd.Byte("gtid.retr." + h))
		verifnd.Assume(s.Retrieved&^bits == 0)
		s.LagValid, s.Lag = true, 0
		s.SSSlave = cfg.SemiSync
		switch verifnd.Choose("replica.state."+h, 3) {
		case 0: // running
			s.IORunning, s.SQLRunning = true, true
		case 1: // dead
			s.Alive = false
		case 2: // IO already stopped (resumed attempt), SQL running
			s.SQLRunning = true
		}
		_ = i
	}
	w.syncGTIDOwners()
	w.dcs.seed(pathMasterNode, master)
	w.dcs.seed(pathMasterReplMonTS, "100")
	for _, h := range ha {
		w.fleet.Servers[h].ReplMonLag = 5 // below the allowed lag of mode 2
	}

	// ---- published active list: arbitrary non-empty subset of the HA hosts ----
	var published []string
	for _, h := range ha {
		if verifnd.Param("full_list", 0) == 1 || verifnd.Choose("active."+h, 2) == 1 {
			published = append(published, h)
		}
	}
	verifnd.Assume(len(published) >= 1)
	c.published = published
	w.dcs.seed(pathActiveNodes, published)

	// ---- the request ----
	sw := &Switchover{InitiatedBy: "op", InitiatedAt: verifnd.Now()}
	rlo := verifnd.Param("request_lo", 0)
	switch rlo + verifnd.Choose("request", verifnd.Param("requests", 4)-rlo) {
	case 0: // automatic failover
		sw.From, sw.Cause, sw.MasterTransition = master, CauseAuto, FailoverTransition
	case 1: // manual switchover to a chosen replica
		sw.To, sw.Cause, sw.MasterTransition = ha[1+verifnd.Choose("request.to", nrep)], CauseManual, SwitchoverTransition
	case 2: // manual switchover away from the master
		sw.From, sw.Cause, sw.MasterTransition = master, CauseManual, SwitchoverTransition
	case 3: // worker-filed request without transition
		sw.From, sw.Cause = master, CauseWorker
	case 4: // operator-forced failover to a chosen replica (mysync switch --to X --failover)
		sw.To, sw.Cause, sw.MasterTransition = ha[1+verifnd.Choose("request.to", nrep)], CauseManual, FailoverTransition
	case 5: // operator-forced failover away from the master
		sw.From, sw.Cause, sw.MasterTransition = master, CauseManual, FailoverTransition
	}
	c.sw = sw
	c.asyncOK = mode == 2 && sw.Cause == CauseAuto
	w.dcs.seed(pathCurrentSwitch, sw)

	// the manager's (possibly stale) view, then the environment moves on
	cs := w.observe()
	w.fleet.Havoc = true
	w.fleet.LogReads = false
	w.dcs.LockMode = verifnd.Param("locks", 1)

	// intercepts specific to this harness
	VerifHook_App_updateActiveNodes = func(app *App, clusterState, clusterStateDcs map[string]*nodestate.NodeState, oldActiveNodes []string, master string) error {
		verifnd.Event("updateActiveNodes(" + master + ")")
		return nil
	}
	VerifHook_App_optimizationPhase = func(app *App, activeNodes []string, switchover *Switchover, oldMaster string, clusterState map[string]*nodestate.NodeState) error {
		verifnd.Event("optimizationPhase")
		return nil
	}
	VerifHook_findMostRecentNodeAndDetectSplitbrain = func(positions []nodePosition) (string, gtids.GTIDSet, bool) {
		saved := VerifHook_findMostRecentNodeAndDetectSplitbrain
		VerifHook_findMostRecentNodeAndDetectSplitbrain = nil
		host, set, split := findMostRecentNodeAndDetectSplitbrain(positions)
		VerifHook_findMostRecentNodeAndDetectSplitbrain = saved
		c.spied = true
		c.locksAtSpy = c.locks()
		// ground truth at this moment: does a maximum exist among the nodes mysync froze?
		exists := false
		for _, p := range positions {
			c.spyHosts = append(c.spyHosts, p.host)
		}
		for _, x := range c.spyHosts {
			all := true
			for _, y := range c.spyHosts {
				all = verifnd.And(all, c.union(y)&^c.union(x) == 0)
			}
			exists = verifnd.Or(exists, all)
		}
		if !exists {
			c.expectSplit = true
			verifnd.Reach("C01.splitbrain")
		}
		verifnd.Assert(verifnd.Iff(split, verifnd.Not(exists)), "splitbrain.detected-iff-no-maximum")
		// C03: the lock was re-confirmed after the freeze statements and before positions are used
		if c.freezeSeen {
			verifnd.Assert(c.locks() > c.locksAtFreeze, "lock.reconfirmed-after-freeze")
		}
		return host, set, split
	}
	w.fleet.Before = c.beforeStatement
	w.fleet.FaultBudget = verifnd.Param("faults", 0)
	w.fleet.FaultKinds = verifnd.Param("fault_kinds", 2)
	w.fleet.FaultMutatingOnly = verifnd.Param("fault_mut_only", 0) == 1
	w.dcs.Before = func(op, path string) {
		if c.lockRefused && c.stmtAfterRefusal == "" && (path == pathMasterNode || path == pathActiveNodes) {
			c.stmtAfterRefusal = "dcs " + op + " " + path
		}
	}

	err := w.app.performSwitchover(cs, published, sw, master)

	// ---- after the run ----
	for _, a := range w.dcs.LockAnswers {
		if !a {
			c.lockRefused = true
		}
	}
	if c.expectSplit {
		verifnd.Assert(len(c.promoted) == 0, "splitbrain.no-promotion-and-emerge")
		_, emerge := verifnd.Files[cfg.Emergefile]
		verifnd.Assert(emerge, "splitbrain.no-promotion-and-emerge")
		verifnd.Assert(err != nil, "splitbrain.no-promotion-and-emerge")
	}
	if c.lockRefused {
		verifnd.Reach("C01.lock-refused")
		// a refused lock check ends the procedure: nothing is promoted afterwards
		verifnd.Assert(err != nil, "daemon.action-without-confirmation")
		verifnd.Assert(len(c.promoted) == 0, "daemon.action-without-confirmation")
	}
	if c.promoteStmtSeen {
		verifnd.Assert(c.firstPromoteStmtLocks > c.locksAtSpy, "lock.reconfirmed-after-catchup")
	}
	verifnd.Assert(len(c.promoted) <= 1, "promote.at-most-one")
	if err == nil {
		verifnd.Reach("C01.success")
		verifnd.Assert(len(c.promoted) == 1, "success.master-recorded-writable-oldmaster-handled")
		if len(c.promoted) == 1 {
			h := c.promoted[0]
			verifnd.Assert(w.dcs.masterHost() == h, "success.master-recorded-writable-oldmaster-handled")
			hs := w.fleet.Servers[h]
			verifnd.Assert(verifnd.And(verifnd.Not(hs.ReadOnly), verifnd.Not(hs.IsReplica)), "success.master-recorded-writable-oldmaster-handled")
			if h != master {
				// the old master is a verified clean replica of the new one, or marked for recovery
				om := w.fleet.Servers[master]
				clean := verifnd.And(verifnd.And(om.Alive, om.IsReplica), verifnd.And(om.Source == h, om.Executed&^hs.Executed == 0))
				verifnd.Assert(verifnd.Or(w.dcs.recoveryMarked(master), clean), "recovery.oldmaster-clean-or-marked")
				switch sw.Cause {
				case CauseAuto:
					verifnd.Reach("C01.success.auto")
				case CauseManual:
					verifnd.Reach("C01.success.manual")
				default:
					verifnd.Reach("C01.success.worker")
				}
			}
		}
	} else {
		verifnd.Reach("C01.failed")
		if strings.Contains(err.Error(), "no quorum") || strings.Contains(err.Error(), "no alive active replica") {
			verifnd.Reach("C01.recount-failed")
		}
	}
}

// H_C01_switchover_faults: the same procedure with one failing or lost-reply MySQL call.
func H_C01_switchover_faults() { H_C01_switchover() }

// H_C01_switchover_locks: the same procedure with every AcquireLock answer decided per call.
// H_C01_forced_failover: the operator-forced failover requests (cause manual, transition failover)
// in all three replication modes: the allowed-lag exception of async mode is for automatic failover only.
func H_C01_forced_failover() { H_C01_switchover() }

func H_C01_switchover_locks() { H_C01_switchover() }
