package app

// C20 — daemon robustness (claimed clause: no reachable Go panic). One iteration
// of each state handler / background check with EVERYTHING real above the
// Node/DCS cut, under coordination-tree contents reachable through the CLI and
// external tools: recorded master or stream_from not registered, health records
// missing or lacking optional parts, active list / optimisation registry / switch
// request naming unknown hosts, dead servers, failing calls. The engine's panic
// detection is the assertion (ids panic.runtime@<func>, panic.explicit@<func>);
// the model is replayed natively and must panic in the same function.

import (
	"errors"
	"time"

	nodestate "github.com/yandex/mysync/internal/app/node_state"
	"github.com/yandex/mysync/internal/app/optimization"
	"github.com/yandex/mysync/internal/dcs"
	"github.com/yandex/mysync/internal/mysql"
	"github.com/yandex/mysync/internal/util"
	"github.com/yandex/mysync/internal/verifnd"
)

type verifC20 struct {
	w *verifWorld
}

// anomaly budget: every deviation from the healthy default spends one unit, so the
// sweep covers all combinations of up to `anomalies` simultaneous anomalies.
var verifAnomalyBudget int

func anom(label string, n int) int {
	if verifAnomalyBudget <= 0 {
		return 0
	}
	v := verifnd.Choose(label, n)
	if v != 0 {
		verifAnomalyBudget--
	}
	return v
}

// verifC20World: 3 HA hosts + optionally one cascade replica whose stream_from may dangle.
func verifC20World() *verifC20 {
	verifAnomalyBudget = verifnd.Param("anomalies", 2)
	ha := []string{"h1", "h2", "h3"}
	casc := map[string]string{}
	switch verifnd.Choose("cascade", verifnd.Param("cascade_kinds", 5)) {
	case 1:
		casc["c1"] = "h2"
	case 2:
		casc["c1"] = "ghost" // configured source is not a registered host
	case 3:
		casc["c1"] = ""
	case 4:
		casc["c1"] = "c1" // configured to stream from itself
	}
	cfg := verifConfig("h2")
	cfg.ResetupCrashedHosts = true
	cfg.ManagerSwitchover = verifnd.Param("manager_switchover", 0) == 1
	verifnd.ConcreteClockStep = 1_000_000
	verifnd.MaxSleeps = 2
	w := verifNewWorld(cfg, ha, casc)
	verifHealthy(w, "h1")
	for h := range casc {
		s := w.fleet.Servers[h]
		s.ReadOnly, s.SuperRO, s.IsReplica, s.Source, s.IORunning, s.SQLRunning = true, true, true, "h1", true, true
		s.LagValid = true
		s.Executed = 1
		if anom("cascade.repl."+h, 2) == 1 {
			s.IORunning, s.SQLRunning = false, false
		}
	}
	w.syncGTIDOwners()
	// some servers may be down
	for _, h := range w.fleet.Hosts {
		if anom("dead."+h, 2) == 1 {
			w.fleet.Servers[h].Alive = false
		}
	}
	verifDaemonState = &nodestate.DaemonState{CrashRecovery: anom("daemon.crash_recovery", 2) == 1}
	c := &verifC20{w: w}
	// health records: as observed / absent / present but empty (lacking every optional part)
	cs := w.observe()
	for _, h := range w.fleet.Hosts {
		switch anom("health."+h, 3) {
		case 0:
			w.dcs.seed(dcs.JoinPath(pathHealthPrefix, h), cs[h])
		case 1:
		case 2:
			w.dcs.seed(dcs.JoinPath(pathHealthPrefix, h), &nodestate.NodeState{PingOk: verifnd.Choose("health.ping."+h, 2) == 1})
		}
	}
	// recorded master: a registered host, a host that is no longer registered, or absent
	switch anom("master-key", 4) {
	case 0:
	case 1:
		w.dcs.seed(pathMasterNode, "ghost")
	case 2:
		w.dcs.unseedPath(pathMasterNode)
	case 3:
		w.dcs.seed(pathMasterNode, "h3")
	}
	// published list
	switch anom("active-list", 4) {
	case 0:
	case 1:
		w.dcs.seed(pathActiveNodes, []string{"ghost", "h1"})
	case 2:
		w.dcs.unseedPath(pathActiveNodes)
	case 3:
		w.dcs.seed(pathActiveNodes, []string{})
	}
	// optimisation registry naming an unknown / a known host
	// (a well-formed record: "{}" = waiting to be optimised, or status "enabled")
	switch anom("opt-registry", 5) {
	case 1:
		w.dcs.seed("optimization_nodes/ghost", optimization.DCSState{})
	case 2:
		w.dcs.seed("optimization_nodes/ghost", optimization.DCSState{Status: optimization.StatusEnabled})
	case 3:
		w.dcs.seed("optimization_nodes/h3", optimization.DCSState{})
	case 4:
		w.dcs.seed("optimization_nodes/h3", optimization.DCSState{Status: optimization.StatusEnabled})
	}
	// recovery marks
	switch anom("recovery", 3) {
	case 1:
		w.dcs.seed(pathRecovery+"/ghost", nil)
	case 2:
		w.dcs.seed(pathRecovery+"/h2", nil)
	}
	return c
}

func (d *verifDCS) unseedPath(path string) {
	p := verifNorm(path)
	delete(d.nodes, p)
	for i, q := range d.order {
		if q == p {
			d.order = append(d.order[:i:i], d.order[i+1:]...)
			break
		}
	}
}

// H_C20_manager: one stateManager iteration, optionally with a pending request naming unknown hosts.
func H_C20_manager() {
	c := verifC20World()
	w := c.w
	switch anom("request", verifnd.Param("requests", 5)) {
	case 1:
		w.dcs.seed(pathCurrentSwitch, &Switchover{From: "ghost", Cause: CauseManual, MasterTransition: SwitchoverTransition, InitiatedBy: "op", InitiatedAt: verifnd.Now()})
	case 2:
		w.dcs.seed(pathCurrentSwitch, &Switchover{To: "ghost", Cause: CauseManual, MasterTransition: SwitchoverTransition, InitiatedBy: "op", InitiatedAt: verifnd.Now()})
	case 3:
		w.dcs.seed(pathCurrentSwitch, &Switchover{From: "h1", Cause: CauseAuto, MasterTransition: FailoverTransition, InitiatedBy: "h2", InitiatedAt: verifnd.Now()})
	case 4:
		w.dcs.seed(pathCurrentSwitch, &Switchover{To: "h3", Cause: CauseWorker, InitiatedBy: "w"})
	}
	switch anom("maintenance", 3) {
	case 1:
		w.dcs.seed(pathMaintenance, &Maintenance{InitiatedBy: "op", Mode: LightMode})
	case 2:
		w.dcs.seed(pathMaintenance, &Maintenance{InitiatedBy: "op", Mode: FullMode, ShouldLeave: verifnd.Choose("maintenance.leave", 2) == 1, MySyncPaused: true})
	}
	VerifHook_App_optimizationPhase = func(app *App, activeNodes []string, switchover *Switchover, oldMaster string, clusterState map[string]*nodestate.NodeState) error {
		return nil
	}
	w.fleet.FaultBudget = verifnd.Param("faults", 0)
	w.fleet.FaultKinds = 1
	w.dcs.FaultBudget = verifnd.Param("dcs_faults", 0)
	st := w.app.stateManager()
	verifnd.Reach("C20.manager.returned")
	verifnd.Assert(st == stateManager || st == stateCandidate || st == stateLost || st == stateMaintenance, "state.valid")
}

// H_C20_other_states: candidate / lost / maintenance / first-run handlers.
func H_C20_other_states() {
	c := verifC20World()
	w := c.w
	if verifnd.Choose("connected", 2) == 1 {
		w.dcs.Connected = false
	}
	if verifnd.Choose("maintenance-file", 2) == 1 {
		verifnd.Files[w.cfg.Maintenancefile] = ""
	}
	switch verifnd.Choose("maintenance", 3) {
	case 1:
		w.dcs.seed(pathMaintenance, &Maintenance{InitiatedBy: "op", Mode: FullMode, MySyncPaused: true})
	case 2:
		w.dcs.seed(pathMaintenance, &Maintenance{InitiatedBy: "op", Mode: FullMode, MySyncPaused: true, ShouldLeave: true})
	}
	w.dcs.LockMode = 1
	w.fleet.FaultBudget = verifnd.Param("faults", 0)
	w.fleet.FaultKinds = 1
	w.dcs.FaultBudget = verifnd.Param("dcs_faults", 0)
	var st appState
	switch verifnd.Choose("handler", 4) {
	case 0:
		st = w.app.stateCandidate()
		verifnd.Reach("C20.candidate.returned")
	case 1:
		st = w.app.stateLost()
		verifnd.Reach("C20.lost.returned")
	case 2:
		st = w.app.stateMaintenance()
		verifnd.Reach("C20.maintenance.returned")
	case 3:
		st = w.app.stateFirstRun()
		verifnd.Reach("C20.firstrun.returned")
	}
	verifnd.Assert(st == stateManager || st == stateCandidate || st == stateLost || st == stateMaintenance || st == stateFirstRun, "state.valid")
}

// H_C20_background: the bodies of the background loops of one process.
func H_C20_background() {
	c := verifC20World()
	w := c.w
	if verifnd.Choose("resetup-file", 2) == 1 {
		verifnd.Files[w.cfg.Resetupfile] = ""
	}
	w.fleet.Servers["h2"].WaitingAck = verifnd.Choose("local.stuck", 2) == 1
	if verifnd.Choose("local.role", 2) == 1 {
		// the local node has no replication configured
		s := w.fleet.Servers["h2"]
		s.IsReplica, s.Source, s.IORunning, s.SQLRunning = false, "", false, false
	}
	w.fleet.FaultBudget = verifnd.Param("faults", 0)
	w.fleet.FaultKinds = 1
	w.dcs.FaultBudget = verifnd.Param("dcs_faults", 0)
	switch verifnd.Choose("check", 5) {
	case 0:
		w.app.checkRecovery()
		verifnd.Reach("C20.bg.recovery")
	case 1:
		w.app.checkCrashRecovery()
		verifnd.Reach("C20.bg.crash-recovery")
	case 2:
		w.app.SetResetupStatus()
		verifnd.Reach("C20.bg.resetup-status")
	case 3:
		// health checker body
		hc := w.app.getLocalNodeState()
		_, _ = hc.UpdateBinlogStatus("", 0)
		_ = w.app.SetHealthState(w.cfg.Hostname, hc)
		verifnd.Reach("C20.bg.health")
	case 4:
		_ = w.app.cluster.UpdateHostsInfo()
		_ = mysql.ReplicationRunning
		verifnd.Reach("C20.bg.hosts")
	}
}

// H_C20_manager_faults: the manager iteration with one failing MySQL call anywhere.
func H_C20_manager_faults() { H_C20_manager() }

// ---- goroutines (C20, "repeated iterations do not accumulate goroutines") ----
//
// The fork-join helpers and the kill loop of SetReadOnlyWithForce are the places where the
// daemon's iterations start goroutines. Everywhere else they are replaced by sequential models
// (native replay must be deterministic); here the REAL bodies run under the engine's cooperative
// goroutine model (one deterministic schedule per path, engine/symx/sched.go): whatever subset
// of the per-host calls fails, the helper returns what its callers rely on and no goroutine it
// started is left blocked.

func H_C20_goroutines() {
	verifnd.GoroutineBaseline()
	VerifHook_getNodeStatesInParallel = nil
	util.VerifHook_RunParallel = nil
	all := []string{"h1", "h2", "h3", "h4"}
	hosts := all[:verifnd.Choose("hosts", verifnd.Param("max_hosts", 3)+1)]
	fail := map[string]bool{}
	for _, h := range hosts {
		fail[h] = verifnd.Choose("fail."+h, 2) == 1
	}
	anyFail := false
	nfail := 0
	for _, h := range hosts {
		anyFail = anyFail || fail[h]
		if fail[h] {
			nfail++
		}
	}
	// (findings are keyed by how many calls fail: natively the arrival order of the goroutines is up
	// to the Go scheduler, the engine explores one schedule — the all-fail case behaves the same in all)
	verifnd.Fact("hosts", itoa(len(hosts)))
	verifnd.Fact("failing", itoa(nfail))
	errBoom := errors.New("boom")
	ms := &nodestate.MasterState{ExecutedGtidSet: "x"}
	getter := func(h string) (*nodestate.NodeState, error) {
		if fail[h] {
			return nil, errBoom
		}
		if h == "h1" {
			return &nodestate.NodeState{PingOk: true, IsMaster: true, MasterState: ms}, nil
		}
		return &nodestate.NodeState{PingOk: true, SlaveState: &nodestate.SlaveState{MasterHost: "h1"}}, nil
	}
	cs, err := getNodeStatesInParallel(hosts, getter, verifLogger())
	verifnd.Assert((err != nil) == anyFail, "goroutines.states.error-iff-a-getter-failed")
	if !anyFail {
		verifnd.Assert(len(cs) == len(hosts), "goroutines.states.complete")
		for _, h := range hosts {
			st := cs[h]
			verifnd.Assert(st != nil, "goroutines.states.complete")
			if st != nil && st.SlaveState != nil {
				verifnd.Assert(st.MasterState == ms, "goroutines.states.master-linked")
			}
		}
		verifnd.Reach("C20.go.states-ok")
	} else {
		verifnd.Assert(cs == nil, "goroutines.states.nil-on-error")
		verifnd.Reach("C20.go.states-failed")
	}
	verifnd.Assert(verifnd.ParkedGoroutines() == 0, "goroutines.none-left-blocked")

	res := util.RunParallel(func(h string) error {
		if fail[h] {
			return errBoom
		}
		return nil
	}, hosts)
	verifnd.Assert(len(res) == len(hosts), "goroutines.parallel.one-result-per-argument")
	for _, h := range hosts {
		e, ok := res[h]
		verifnd.Assert(ok && (e != nil) == fail[h], "goroutines.parallel.result-is-the-call's")
	}
	verifnd.Assert(verifnd.ParkedGoroutines() == 0, "goroutines.none-left-blocked")
	verifnd.Reach("C20.go.done")
}

// H_C20_force_readonly: the real Node.SetReadOnlyWithForce (three graceful attempts, then the
// kill loop in a helper goroutine stopped through an unbuffered channel, then the forced attempt)
// with every combination of failing attempts: it returns, the helper goroutine is gone, and
// KILL is only sent while the forced attempt is being made.
func H_C20_force_readonly() {
	verifnd.GoroutineBaseline()
	w := verifNewWorld(verifConfig("h1"), []string{"h1", "h2"}, nil)
	verifHealthy(w, "h1")
	mysql.VerifHook_Node_SetReadOnlyWithForce = nil
	// no event log: natively the kill loop runs concurrently with the forced attempt, so the order
	// of their statements is up to the Go scheduler (the final state and the leak count are not)
	w.fleet.Quiet = true
	mysql.VerifHook_Node_getRunningQueryIDs = func(n *mysql.Node, excludeUsers []string, timeout time.Duration) ([]int, error) {
		verifnd.Reach("C20.go.force-ro.kill-loop")
		switch verifnd.Choose("running-queries", 3) {
		case 0:
			return nil, errors.New("processlist failed")
		case 1:
			return nil, nil
		}
		return []int{7, 9}, nil
	}
	w.fleet.FaultBudget, w.fleet.FaultKinds, w.fleet.FaultOnly = verifnd.Param("faults", 4), 1, "set_readonly"
	super := verifnd.Choose("super", 2) == 1
	if !super {
		w.fleet.FaultOnly = "set_readonly_no_super"
	}
	err := w.app.cluster.Get("h1").SetReadOnlyWithForce([]string{"admin"}, super)
	s := w.fleet.Servers["h1"]
	if err == nil {
		verifnd.Assert(s.ReadOnly && s.SuperRO == super, "goroutines.force-ro.nil-means-read-only")
		verifnd.Reach("C20.go.force-ro.ok")
	} else {
		verifnd.Reach("C20.go.force-ro.failed")
	}
	verifnd.Assert(verifnd.ParkedGoroutines() == 0, "goroutines.none-left-blocked")
}

// H_C20_registry_refresh — "hosts added or removed at any moment": after a successful refresh the
// host registry of the daemon equals what the coordination service lists, whatever it held before
// (a host may have left, joined, or moved between the HA and the cascade group, the local host
// included). A stale entry is corrupted state that every per-host loop then acts on.
func H_C20_registry_refresh() {
	hosts := []string{"h1", "h2", "h3"}[:verifnd.Param("hosts", 3)]
	const (
		gAbsent = iota
		gHA
		gCascade
	)
	before := map[string]int{}
	var ha []string
	casc := map[string]string{}
	for _, h := range hosts {
		before[h] = verifnd.Choose("before."+h, 3)
		switch before[h] {
		case gHA:
			ha = append(ha, h)
		case gCascade:
			casc[h] = "h1"
		}
	}
	w := verifNewWorld(verifConfig("h2"), ha, casc) // h2 is the local host; the world refreshes once
	cl := w.app.cluster
	after := map[string]int{}
	for _, h := range hosts {
		after[h] = verifnd.Choose("after."+h, 3)
		if after[h] == before[h] {
			continue
		}
		w.dcs.unseedPath(dcs.JoinPath(dcs.PathHANodesPrefix, h))
		w.dcs.unseedPath(dcs.JoinPath(dcs.PathCascadeNodesPrefix, h))
		switch after[h] {
		case gHA:
			w.dcs.seed(dcs.JoinPath(dcs.PathHANodesPrefix, h), struct{}{})
		case gCascade:
			w.dcs.seed(dcs.JoinPath(dcs.PathCascadeNodesPrefix, h), mysql.CascadeNodeConfiguration{StreamFrom: "h1"})
		}
	}
	w.dcs.FaultBudget = verifnd.Param("dcs_faults", 0)
	err := cl.UpdateHostsInfo()
	if err != nil {
		verifnd.Reach("C20.registry.refresh-failed")
		return
	}
	nHA, nCasc := 0, 0
	for _, h := range hosts {
		verifnd.Assert(cl.IsHAHost(h) == (after[h] == gHA), "registry.ha-group-equals-store")
		verifnd.Assert(cl.IsCascadeHost(h) == (after[h] == gCascade), "registry.cascade-group-equals-store")
		verifnd.Assert((cl.Get(h) != nil) == (after[h] != gAbsent), "registry.handle-iff-registered")
		if after[h] == gHA {
			nHA++
		}
		if after[h] == gCascade {
			nCasc++
		}
	}
	verifnd.Assert(len(cl.HANodeHosts()) == nHA && len(cl.CascadeNodeHosts()) == nCasc && len(cl.AllNodeHosts()) == nHA+nCasc, "registry.lists-equal-store")
	verifnd.Assert(cl.Local() != nil && cl.Local().Host() == "h2", "registry.local-handle-kept")
	verifnd.Reach("C20.registry.refreshed")
}

// H_C20_registry_refresh_faults: the same with failing reads of the coordination service.
func H_C20_registry_refresh_faults() { H_C20_registry_refresh() }
