package app

// C03 (daemon layer) — only the lock holder acts. One iteration of each state
// handler on a cluster that NEEDS cluster-wide action (a writable replica to
// fence, a stale active list to publish, a pending switch request), with the
// lock answers decided per call: no remote-mutating statement and no write to
// master / active_nodes / switch / last_switch / last_rejected_switch /
// recovery/* happens before a confirmation of the lock in the same iteration,
// and nothing at all when the lock is refused.

import (
	"strings"

	nodestate "github.com/yandex/mysync/internal/app/node_state"
	"github.com/yandex/mysync/internal/verifnd"
)

func verifProtectedKey(p string) bool {
	return p == pathMasterNode || p == pathActiveNodes || p == pathCurrentSwitch || p == pathLastSwitch ||
		p == pathLastRejectedSwitch || strings.HasPrefix(p, pathRecovery) || p == pathMaintenance || p == pathLowSpace
}

func H_C03_daemon() {
	hosts := []string{"h1", "h2", "h3"}
	local := "h2"
	w := verifNewWorld(verifConfig(local), hosts, nil)
	verifHealthy(w, "h1")
	// work to do: h3 is writable (must be fenced), the published list is stale, a switch request may be pending
	w.fleet.Servers["h3"].ReadOnly, w.fleet.Servers["h3"].SuperRO = false, false
	w.dcs.seed(pathActiveNodes, []string{"h1", "h2"})
	if verifnd.Choose("pending-request", 2) == 1 {
		w.dcs.seed(pathCurrentSwitch, &Switchover{From: "h1", Cause: CauseManual, MasterTransition: SwitchoverTransition, InitiatedBy: "op", InitiatedAt: verifnd.Now()})
	}
	verifPublishHealth(w)
	VerifHook_App_optimizationPhase = func(app *App, activeNodes []string, switchover *Switchover, oldMaster string, clusterState map[string]*nodestate.NodeState) error {
		return nil
	}
	w.dcs.LockMode = 1
	confirmed := false
	violated := ""
	w.fleet.Before = func(host, stmt string) {
		confirmed = false
		for _, a := range w.dcs.LockAnswers {
			if a {
				confirmed = true
			}
		}
		refusedLast := len(w.dcs.LockAnswers) > 0 && !w.dcs.LockAnswers[len(w.dcs.LockAnswers)-1]
		if host != local && (!confirmed || refusedLast) && violated == "" {
			violated = host + ":" + stmt
		}
	}
	w.dcs.Before = func(op, path string) {
		if !verifProtectedKey(path) {
			return
		}
		ok := false
		for _, a := range w.dcs.LockAnswers {
			if a {
				ok = true
			}
		}
		refusedLast := len(w.dcs.LockAnswers) > 0 && !w.dcs.LockAnswers[len(w.dcs.LockAnswers)-1]
		if (!ok || refusedLast) && violated == "" {
			violated = "dcs " + op + " " + path
		}
	}
	var next appState
	switch verifnd.Choose("state", 3) {
	case 0:
		next = w.app.stateManager()
		verifnd.Reach("C03.daemon.manager")
	case 1:
		next = w.app.stateCandidate()
		verifnd.Reach("C03.daemon.candidate")
		// a candidate never acts, whatever the lock says (it only changes state)
		verifnd.Assert(len(w.fleet.Log) == 0 && len(w.dcs.Writes) == 0, "daemon.candidate-acts")
	case 2:
		w.dcs.Connected = false
		next = w.app.stateLost()
		verifnd.Reach("C03.daemon.lost")
		for _, l := range w.fleet.Log {
			verifnd.Assert(strings.HasPrefix(l, local+":"), "daemon.lost-remote-action")
		}
		verifnd.Assert(len(w.dcs.Writes) == 0, "daemon.lost-writes")
	}
	if violated != "" {
		verifnd.Fact("action", violated)
	}
	verifnd.Assert(violated == "", "daemon.action-without-confirmation")
	if len(w.dcs.LockAnswers) > 0 && !w.dcs.LockAnswers[0] {
		verifnd.Reach("C03.daemon.refused")
		verifnd.Assert(len(w.fleet.Log) == 0, "daemon.action-without-confirmation")
		verifnd.Assert(next != stateManager, "daemon.refused-stays-manager")
	}
	if len(w.fleet.Log) > 0 {
		verifnd.Reach("C03.daemon.acted")
	}
}
