package app

// C04 — the published active list covers every semi-sync acker and matches the
// ack count. One call of the real updateActiveNodes (everything below it real:
// calcActiveNodes, calcActiveNodesChanges, adjustSemiSyncOnMaster, enable/
// disableSemiSyncOnSlave(s), canShrinkActiveNodes, SetActiveNodes …) from an
// arbitrary membership/health situation, with checkpoint assertions after every
// mutating call (= crash at any point / a failing call at any point).

import (
	"sort"
	"time"

	nodestate "github.com/yandex/mysync/internal/app/node_state"
	"github.com/yandex/mysync/internal/mysql"
	"github.com/yandex/mysync/internal/verifnd"
)

type verifC04 struct {
	w        *verifWorld
	master   string
	replicas []string
	wcfg     int
	// invariant values at entry
	preA, preB bool
	oldList    []string
	dataLag    map[string]bool // replicas that are "too far behind in download" at entry
	stale      map[string]bool // not replicating for longer than the inactivation delay
	diverged   map[string]bool
	marked     map[string]bool
	cascade    map[string]bool
	notRepl    map[string]bool // reachable, but not (fully) replicating from the master
	step       int
	checkAB    bool // assert (a)/(b) at checkpoints (semi-sync configuration, master not killed)
}

func verifContains(l []string, h string) bool {
	for _, x := range l {
		if x == h {
			return true
		}
	}
	return false
}

// (a): every reachable HA replica with semi-sync acknowledgement enabled is in the published list.
func (c *verifC04) invA() bool {
	list, _ := c.w.dcs.activeNodes()
	r := true
	for _, h := range c.replicas {
		s := c.w.fleet.Servers[h]
		if !verifContains(list, h) {
			r = verifnd.And(r, verifnd.Not(verifnd.And(s.Alive, s.SSSlave)))
		}
	}
	return r
}

// (b): acks the master waits for >= min(|list|/2, w).
func (c *verifC04) invB() bool {
	list, _ := c.w.dcs.activeNodes()
	need := len(list) / 2
	if c.wcfg < need {
		need = c.wcfg
	}
	m := c.w.fleet.Servers[c.master]
	have := verifnd.IteInt(m.SSMaster, m.WaitCount, 0)
	return have >= need
}

func (c *verifC04) checkpoint(what string) {
	c.step++
	verifnd.Fact("after", what)
	if !c.checkAB {
		return
	}
	verifnd.Assert(verifnd.Implies(c.preA, c.invA()), "checkpoint.a")
	verifnd.Assert(verifnd.Implies(c.preB, c.invB()), "checkpoint.b")
}

// contentRules on a value just written to active_nodes.
func (c *verifC04) contentRules() {
	list, ok := c.w.dcs.activeNodes()
	if !ok {
		return
	}
	for _, h := range list {
		if h == c.master {
			continue
		}
		verifnd.Assert(!c.cascade[h], "list.content.cascade")
		verifnd.Assert(!c.marked[h], "list.content.recovery")
		verifnd.Assert(!c.diverged[h], "list.content.diverged")
		verifnd.Assert(!c.stale[h], "list.content.stale")
		// a replica too far behind in download to be made semi-sync (and therefore kept out of semi-sync)
		if c.dataLag[h] {
			// (discriminating fact for the known finding: the ack count is computed without the
			// data-lagging members, the published list counts them — whether or not semi-sync
			// happens to be on already on such a member)
			verifnd.Fact("datalag_listed", "yes")
			verifnd.Assert(c.w.fleet.Servers[h].SSSlave, "list.content.datalag")
		}
	}
	// eviction only while the manager can reach the master
	evicted := false
	for _, h := range c.oldList {
		if !verifContains(list, h) {
			evicted = true
		}
	}
	if evicted {
		verifnd.Reach("C04.evicted")
		// (the master is reachable in the ground truth and the manager's latest ping of it did not fail)
		verifnd.Assert(c.w.fleet.Servers[c.master].Alive && !c.w.fleet.PingFailed[c.master], "list.evict-without-master-ping")
	}
}

// H_C04_update_active: see file comment.
func H_C04_update_active() {
	nrep := verifnd.Param("replicas", 2)
	withCascade := verifnd.Param("cascade", 0) == 1
	master := "m"
	var replicas []string
	for i := 0; i < nrep; i++ {
		replicas = append(replicas, "r"+string(rune('1'+i)))
	}
	ha := append([]string{master}, replicas...)
	cfg := verifConfig(master)
	cfg.SemiSync = true
	if verifnd.Param("async", 0) == 1 {
		// also the asynchronous configuration (only the content rules and the eviction guard are asserted there)
		cfg.SemiSync = verifnd.Choose("cfg.semisync", 2) == 0
	}
	cfg.MasterFirstAdjustSSOrder = verifnd.Bool("cfg.master_first")
	wcfg := 1 + verifnd.Choose("cfg.wait_count", verifnd.Param("max_w", 2))
	cfg.RplSemiSyncMasterWaitForSlaveCount = wcfg
	cfg.SemiSyncEnableLag = 100
	casc := map[string]string{}
	if withCascade {
		casc["c1"] = master
	}
	w := verifNewWorld(cfg, ha, casc)
	c := &verifC04{w: w, master: master, replicas: replicas, wcfg: wcfg, dataLag: map[string]bool{}, stale: map[string]bool{},
		diverged: map[string]bool{}, marked: map[string]bool{}, cascade: map[string]bool{}, notRepl: map[string]bool{}}

	// ---- ground truth ----
	// GTIDs are concrete here (they are not the subject): master holds {t0}; t0,t1 originate on the master, t2 elsewhere.
	ms := w.fleet.Servers[master]
	ms.OwnBits = 3
	ms.Executed = 1
	ms.SSMaster = verifnd.Bool("m.ss_master")
	ms.WaitCount = verifnd.Int("m.wait_count", 0, 2)
	ms.Binlogs = []mysql.Binlog{{Name: "bin.1", Size: 1000}}
	w.syncGTIDOwners()
	w.dcs.seed(pathMasterNode, master)
	for _, h := range w.casc {
		s := w.fleet.Servers[h]
		s.ReadOnly, s.SuperRO, s.IsReplica, s.Source, s.IORunning, s.SQLRunning = true, true, true, master, true, true
		s.Executed = ms.Executed
		s.SSSlave = verifnd.Bool("ss_slave." + h)
		c.cascade[h] = true
	}
	now := verifnd.Now()
	prevClass := 0
	for _, h := range replicas {
		s := w.fleet.Servers[h]
		s.ReadOnly, s.SuperRO = true, true
		s.SSSlave = verifnd.Bool("ss_slave." + h)
		s.Executed = 1
		s.LagValid, s.Lag = true, 0
		s.LogFile, s.ReadPos = "bin.1", 1000
		allowed := []int{}
		for k := 0; k < 12; k++ {
			if k >= 10 && verifnd.Param("classes", 0) == 0 {
				break // classes 10, 11 only where an obligation asks for them
			}
			// (classes: bit mask of the replica classes inside this obligation's bound; 0 = all)
			if mask := verifnd.Param("classes", 0); mask == 0 || mask&(1<<uint(k)) != 0 {
				allowed = append(allowed, k)
			}
		}
		cls := allowed[verifnd.Choose("class."+h, len(allowed))]
		if verifnd.Param("symmetry", 0) == 1 {
			// symmetry reduction (quick tier): replica classes in non-decreasing order
			verifnd.Assume(cls >= prevClass)
			prevClass = cls
		}
		running := func() { s.IsReplica, s.Source, s.IORunning, s.SQLRunning = true, master, true, true }
		switch cls {
		case 0: // running replica of the master, transactions ⊆ master's
			running()
		case 1: // running, holds a transaction the master lacks that originated elsewhere (diverged)
			running()
			s.Executed = 1 | 4
			c.diverged[h] = true
		case 2: // running, ahead of the master by a transaction of the master's own UUID
			running()
			s.Executed = 1 | 2
		case 3: // running, marked for recovery
			running()
			w.dcs.seed(pathRecovery+"/"+h, nil)
			c.marked[h] = true
		case 4: // running, far behind in download, IO progressing (position moved since last seen)
			running()
			s.ReadPos = 500
			w.app.slaveReadPositions[h] = "bin.10000000000000000400"
			c.dataLag[h] = true
		case 5: // running, far behind in download, IO stalled
			running()
			s.ReadPos = 500
			w.app.slaveReadPositions[h] = "bin.10000000000000000500"
			c.dataLag[h] = true
		case 6: // dead / unreachable from the manager
			s.Alive = false
		case 7: // not a replica (lost / stale master)
			s.IsReplica = false
		case 8: // stopped
			s.IsReplica, s.Source, s.IORunning, s.SQLRunning = true, master, false, false
		case 9: // error
			s.IsReplica, s.Source, s.IORunning, s.SQLRunning, s.SQLErrno = true, master, true, false, 1062
		case 10: // only the IO thread stopped (STOP REPLICA IO_THREAD), no error recorded
			s.IsReplica, s.Source, s.IORunning, s.SQLRunning = true, master, false, true
		case 11: // only the SQL thread stopped, no error recorded
			s.IsReplica, s.Source, s.IORunning, s.SQLRunning = true, master, true, false
		}
		if cls >= 7 {
			c.notRepl[h] = true
		}
	}
	// the manager's observations (real getClusterStateFromDB), health records from the same instant
	cs := w.observe()
	csd := map[string]*nodestate.NodeState{}
	for h, ns := range cs {
		cp := *ns
		csd[h] = &cp
	}
	for _, h := range replicas {
		s := w.fleet.Servers[h]
		if !s.Alive {
			// an unreachable replica may still hold a good health record (partition between manager and host);
			// and the manager may have seen it failing for an arbitrary time
			switch verifnd.Choose("unreachable."+h, 4) {
			case 0: // good health record: may well be replicating, the manager just cannot see it
				csd[h].PingOk = true
			case 1: // bad record, first seen failing long ago
				w.app.t.Set(NodeFailedAt, h, verifnd.TimeAt(verifnd.UnixNano(now)-int64(cfg.InactivationDelay)-1))
				c.stale[h] = true
			case 2: // bad record, failing since recently
				w.app.t.Set(NodeFailedAt, h, now)
			case 3: // bad record, first time seen failing
			}
		}
	}
	// the published list read at the start of the iteration: master + arbitrary subset of the HA replicas
	old := []string{master}
	for _, h := range replicas {
		if verifnd.Choose("old."+h, 2) == 1 {
			old = append(old, h)
		}
	}
	sort.Strings(old)
	c.oldList = old
	w.dcs.seed(pathActiveNodes, old)

	c.preA, c.preB = c.invA(), c.invB()
	w.fleet.FaultBudget = verifnd.Param("faults", 0)
	w.fleet.FaultKinds = 2
	if verifnd.Param("fault_only_ping", 0) == 1 {
		w.fleet.FaultOnly = "ping"
	}
	w.fleet.Checkpoint = func(host, stmt string) { c.checkpoint(host + ":" + stmt) }
	w.dcs.Checkpoint = func(op, path string) {
		if path == pathActiveNodes {
			c.contentRules()
		}
		c.checkpoint("dcs " + op + " " + path)
	}

	// the master may die after the manager's observation: right before the step, or right
	// before any MySQL statement of the step (never between the guard's own probe and the
	// publication that follows it without another statement: that race is unavoidable)
	killed, calls := false, 0
	if verifnd.Param("kill_master", 0) == 1 {
		die := func() {
			if !killed && calls <= verifnd.Param("kill_points", 12) && verifnd.Choose("master.dies.now", 2) == 1 {
				killed = true
				ms.Alive = false
				verifnd.Reach("C04.master-died")
				verifnd.Fact("master_died", "yes")
			}
		}
		die()
		w.fleet.OnCall = func(host, stmt string) {
			calls++
			die()
		}
	}
	c.checkAB = cfg.SemiSync && verifnd.Param("kill_master", 0) == 0

	err := w.app.updateActiveNodes(cs, csd, old, master)

	verifnd.Fact("after", "return")
	if err == nil && len(w.fleet.FaultsUsed) == 0 && !ms.ReadOnly && cfg.SemiSync && !killed {
		// a completed step with the master healthy and writable
		verifnd.Reach("C04.completed")
		verifnd.Assert(c.invA(), "post.a")
		verifnd.Assert(c.invB(), "post.b")
	}
	if verifnd.Param("second_pass", 0) == 1 && len(w.fleet.FaultsUsed) == 0 {
		// a reachable replica that is not replicating from the master is gone from the list at the
		// latest after the inactivation delay: a second iteration, the delay later, nothing else changed
		w.fleet.Checkpoint, w.dcs.Checkpoint = nil, nil
		verifnd.Sleep(cfg.InactivationDelay + time.Second)
		cs2 := w.observe()
		csd2 := map[string]*nodestate.NodeState{}
		for h, ns := range cs2 {
			cp := *ns
			csd2[h] = &cp
		}
		cur, _ := w.dcs.activeNodes()
		// ground truth at the second observation (the first iteration may have restarted an IO thread
		// while adjusting semi-sync): reachable, and not fully replicating from the master
		still := map[string]bool{}
		for _, h := range replicas {
			s := w.fleet.Servers[h]
			still[h] = c.notRepl[h] && s.Alive && !(s.IsReplica && s.Source == master && s.IORunning && s.SQLRunning)
		}
		err2 := w.app.updateActiveNodes(cs2, csd2, cur, master)
		after, _ := w.dcs.activeNodes()
		if err == nil && err2 == nil {
			for _, h := range replicas {
				if still[h] {
					verifnd.Reach("C04.not-replicating")
					verifnd.Assert(!verifContains(after, h), "list.content.not-replicating")
				}
			}
		}
	}
	list, _ := w.dcs.activeNodes()
	if len(list) > len(old) {
		verifnd.Reach("C04.grew")
	}
	if len(list) < len(old) {
		verifnd.Reach("C04.shrank")
	}
	_ = time.Second
}

// H_C04_update_active_faults: the same step with one failing / lost-reply MySQL call.
func H_C04_update_active_faults() { H_C04_update_active() }

// H_C04_evict_guard: the same step with two replicas (so that one can leave while the other
// joins) and one failing ping of the master: no member may leave the published list then.
func H_C04_evict_guard() { H_C04_update_active() }

// H_C04_not_replicating: reachable replicas whose replication from the master is stopped, broken or
// half-stopped (one thread) leave the published list within the inactivation delay.
func H_C04_not_replicating() { H_C04_update_active() }

// H_C04_set_recovery: SetRecovery(h) removes h from the published list before it
// writes the mark, so at every crash point / failing coordination call
// "marked(h) ⇒ h is not listed" (unless h is the recorded master — not the case here).
func H_C04_set_recovery() {
	hosts := []string{"m", "r1", "r2"}
	w := verifNewWorld(verifConfig("m"), hosts, nil)
	w.dcs.seed(pathMasterNode, "m")
	list := []string{"m"}
	for _, h := range hosts[1:] {
		if verifnd.Choose("listed."+h, 2) == 1 {
			list = append(list, h)
		}
	}
	if verifnd.Choose("list.present", 2) == 1 {
		w.dcs.seed(pathActiveNodes, list)
	}
	h := hosts[1+verifnd.Choose("host", 2)]
	w.dcs.FaultBudget = verifnd.Param("dcs_faults", 1)
	inv := func() {
		l, _ := w.dcs.activeNodes()
		if w.dcs.recoveryMarked(h) {
			verifnd.Assert(!verifContains(l, h), "recovery.marked-not-listed")
		}
	}
	w.dcs.Checkpoint = func(op, path string) { inv() }
	err := w.app.SetRecovery(h)
	inv()
	if err == nil {
		verifnd.Reach("C04.recovery.marked")
		verifnd.Assert(w.dcs.recoveryMarked(h), "recovery.nil-implies-marked")
	} else {
		verifnd.Reach("C04.recovery.failed")
	}
}
