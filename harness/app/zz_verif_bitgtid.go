package app

// bitGTID: a GTID set as a bit-vector over a small universe of transactions
// (DESIGN §3.3). Contain/Equal are the set relations that C13 shows the real
// go-mysql implementation to satisfy on valid sets.

import (
	"github.com/google/uuid"
	"github.com/yandex/mysync/internal/mysql/gtids"
	"github.com/yandex/mysync/internal/verifnd"
)

type bitGTID struct{ bits uint64 }

func (b *bitGTID) String() string   { return verifnd.GTIDString(b.bits) }
func (b *bitGTID) Encode() []byte   { return nil }
func (b *bitGTID) IsEmpty() bool    { return b.bits == 0 }
func (b *bitGTID) Clone() gtids.GTIDSet { return &bitGTID{b.bits} }
func (b *bitGTID) Equal(o gtids.GTIDSet) bool {
	return b.bits == o.(*bitGTID).bits
}
func (b *bitGTID) Contain(o gtids.GTIDSet) bool {
	return o.(*bitGTID).bits&^b.bits == 0
}
func (b *bitGTID) Update(s string) error {
	b.bits |= verifnd.GTIDBits(s)
	return nil
}

// verifGTIDOwn: which transactions (bits) originate on which server UUID.
var verifGTIDOwn = map[uuid.UUID]uint64{}

// verifInstallGTID replaces text parsing and the split-brain test by their set
// specifications over bit-sets — exactly what C13 decides about the real
// functions on valid sets: subset ⇒ not split-brained; an extra transaction that
// did not originate on the master ⇒ split-brained; otherwise (extra transactions
// of the master's own UUID only) the answer is left arbitrary.
func verifInstallGTID() {
	gtids.VerifHook_ParseGtidSet = func(gtidset string) gtids.GTIDSet {
		return &bitGTID{verifnd.GTIDBits(gtidset)}
	}
	gtids.VerifHook_IsSplitBrained = func(slaveGtidSet, masterGtidSet gtids.GTIDSet, masterUUID uuid.UUID) bool {
		s, m := slaveGtidSet.(*bitGTID).bits, masterGtidSet.(*bitGTID).bits
		extra := s &^ m
		if extra == 0 {
			return false
		}
		if extra&^verifGTIDOwn[masterUUID] != 0 {
			return true
		}
		return verifnd.Bool("splitbrained.own-uuid-extra")
	}
	gtids.VerifHook_GTIDDiff = func(replicaGTIDSet, sourceGTIDSet gtids.GTIDSet) (string, error) {
		return "<gtid diff>", nil
	}
}

var _ gtids.GTIDSet = (*bitGTID)(nil)
