package app

// bitGTID: a GTID set as a bit-vector over a small universe of transactions
// (DESIGN §3.3). Contain/Equal are the set relations that C13 shows the real
// go-mysql implementation to satisfy on valid sets.

import (
	"fmt"

	"github.com/yandex/mysync/internal/mysql/gtids"
)

type bitGTID struct{ bits uint64 }

func (b *bitGTID) String() string   { return fmt.Sprintf("bits:%x", b.bits) }
func (b *bitGTID) Encode() []byte   { return nil }
func (b *bitGTID) IsEmpty() bool    { return b.bits == 0 }
func (b *bitGTID) Clone() gtids.GTIDSet { return &bitGTID{b.bits} }
func (b *bitGTID) Equal(o gtids.GTIDSet) bool {
	return b.bits == o.(*bitGTID).bits
}
func (b *bitGTID) Contain(o gtids.GTIDSet) bool {
	return o.(*bitGTID).bits&^b.bits == 0
}
func (b *bitGTID) Update(s string) error {
	panic("bitGTID.Update(text) is not modelled")
}

var _ gtids.GTIDSet = (*bitGTID)(nil)
