package app

// Observation faithfulness — the manager's picture of a host is what every other check starts
// from (most harnesses build it with this very function through getClusterStateFromDB, some
// build it by hand). H_OBS_node_state decides, for one real getNodeState call on an arbitrary
// server state with at most one failing status query, that every field the call fills in equals
// the ground truth at that moment, and that the group flag (cascade or not) is right even when
// the observation is incomplete. Registered under C16 (cascade hosts are never treated as HA
// members) and C17 (the writable-master guard reads the master's read-only flags).

import (
	"strings"

	"github.com/yandex/mysync/internal/mysql"
	"github.com/yandex/mysync/internal/verifnd"
)

func H_OBS_node_state() {
	cascade := verifnd.Choose("host.group", 2) == 1
	local := verifnd.Choose("host.is-local", 2) == 1
	ha := []string{"m", "h"}
	casc := map[string]string{}
	if cascade {
		ha = []string{"m"}
		casc["h"] = "m"
	}
	self := "m"
	if local {
		self = "h"
	}
	w := verifNewWorld(verifConfig(self), ha, casc)
	s := w.fleet.Servers["h"]
	// ---- arbitrary server state ----
	s.Alive = verifnd.Choose("alive", 2) == 1
	s.ReadOnly = verifnd.Bool("read_only")
	s.SuperRO = verifnd.And(s.ReadOnly, verifnd.Bool("super_read_only")) // super_read_only implies read_only
	s.Offline = verifnd.Bool("offline_mode")
	s.IsReplica = verifnd.Choose("is_replica", 2) == 1
	s.Source = "m"
	s.IORunning = verifnd.Bool("io_running")
	s.SQLRunning = verifnd.Bool("sql_running")
	s.IOErrno = verifnd.IteInt(verifnd.Bool("io_errno"), 1236, 0)
	s.SQLErrno = verifnd.IteInt(verifnd.Bool("sql_errno"), 1062, 0)
	s.Executed = 1 | uint64(verifnd.Byte("gtid.executed")&6)
	s.Retrieved = s.Executed | uint64(verifnd.Byte("gtid.retrieved")&8)
	s.LagValid = verifnd.Choose("lag.valid", 2) == 1
	s.Lag = 7
	s.SSMaster, s.SSSlave = verifnd.Bool("semisync.master"), verifnd.Bool("semisync.slave")
	s.WaitCount = verifnd.Int("semisync.wait_count", 0, 2)
	s.Flush, s.SyncBinlog = 1+verifnd.Choose("flush", 2), 1+999*verifnd.Choose("sync_binlog", 2)
	w.syncGTIDOwners()
	w.fleet.FaultBudget, w.fleet.FaultKinds = verifnd.Param("faults", 1), 1
	w.fleet.Quiet = true
	var reads []string
	w.fleet.OnCall = func(host, stmt string) {
		if host == "h" {
			reads = append(reads, stmt)
		}
	}

	ns := w.app.getNodeState("h")

	// ---- which status queries were answered ----
	failed := ""
	if len(w.fleet.FaultsUsed) > 0 {
		parts := strings.Split(w.fleet.FaultsUsed[0], ":")
		failed = parts[1]
		verifnd.Fact("failed_query", failed)
	}
	answered := map[string]bool{}
	for _, q := range reads {
		if q != failed {
			answered[q] = true
		}
	}
	A := verifnd.Assert
	// the group flag comes from the registry, not from the server: right whatever the server answered
	A(ns.IsCascade == cascade, "obs.cascade-flag")
	A(ns.CheckBy == self, "obs.checked-by")
	if !s.Alive {
		A(!ns.PingOk && ns.SlaveState == nil && ns.MasterState == nil, "obs.dead-host-empty")
		verifnd.Reach("OBS.dead")
		return
	}
	if failed == "" {
		A(ns.PingOk && ns.Error == "", "obs.complete")
		verifnd.Reach("OBS.complete")
	} else {
		A(ns.Error != "", "obs.error-recorded")
		verifnd.Reach("OBS.incomplete")
	}
	if answered["is_readonly"] {
		A(verifnd.And(verifnd.Iff(ns.IsReadOnly, s.ReadOnly), verifnd.Iff(ns.IsSuperReadOnly, s.SuperRO)), "obs.read-only-flags")
	} else {
		A(!ns.IsReadOnly && !ns.IsSuperReadOnly, "obs.unanswered-left-zero")
	}
	if answered["get_offline_mode"] {
		A(verifnd.Iff(ns.IsOffline, s.Offline), "obs.offline-flag")
	}
	gotStatus := answered["replica_status"] || answered["slave_status"]
	gotSettings := answered["get_replication_settings"]
	if gotStatus && gotSettings {
		A(ns.IsMaster == !s.IsReplica, "obs.role")
		if s.IsReplica {
			A(ns.SlaveState != nil && ns.MasterState == nil, "obs.role")
			if ss := ns.SlaveState; ss != nil {
				A(ss.MasterHost == "m", "obs.replica.source")
				A(ss.ExecutedGtidSet == verifnd.GTIDString(s.Executed) && ss.RetrievedGtidSet == verifnd.GTIDString(s.Retrieved), "obs.replica.gtids")
				running := verifnd.And(s.IORunning, s.SQLRunning)
				noErr := verifnd.And(s.IOErrno == 0, s.SQLErrno == 0)
				A(verifnd.Iff(ss.ReplicationState == mysql.ReplicationRunning, running), "obs.replica.state-running")
				A(verifnd.Iff(ss.ReplicationState == mysql.ReplicationStopped, verifnd.And(verifnd.Not(running), noErr)), "obs.replica.state-stopped")
				A(verifnd.Iff(ss.ReplicationState == mysql.ReplicationError, verifnd.And(verifnd.Not(running), verifnd.Not(noErr))), "obs.replica.state-error")
				A(verifnd.And(ss.LastIOErrno == s.IOErrno, ss.LastSQLErrno == s.SQLErrno), "obs.replica.errnos")
				if failed == "" {
					A((ss.ReplicationLag != nil) == s.LagValid, "obs.replica.lag")
					if ss.ReplicationLag != nil {
						A(*ss.ReplicationLag == s.Lag, "obs.replica.lag")
					}
				}
			}
		} else if failed == "" {
			A(ns.MasterState != nil && ns.SlaveState == nil && ns.MasterState.ExecutedGtidSet == verifnd.GTIDString(s.Executed), "obs.master.gtids")
		}
	} else {
		A(ns.SlaveState == nil && ns.MasterState == nil, "obs.unanswered-left-zero")
	}
	if gotSettings && ns.ReplicationSettings != nil {
		A(ns.ReplicationSettings.InnodbFlushLogAtTrxCommit == s.Flush && ns.ReplicationSettings.SyncBinlog == s.SyncBinlog, "obs.replication-settings")
	}
	if answered["semisync_status"] {
		st := ns.SemiSyncState
		A(st != nil, "obs.semisync")
		if st != nil {
			A(verifnd.And(verifnd.Iff(st.MasterEnabled, s.SSMaster), verifnd.Iff(st.SlaveEnabled, s.SSSlave)), "obs.semisync")
			A(st.WaitSlaveCount == s.WaitCount, "obs.semisync")
		}
	}
}
