package app

// C09 — maintenance freezes automation; leaving re-learns the real master.
//
// Entry points (all run the REAL state handlers of the daemon on top of the fake
// fleet / fake coordination store; local host "a", HA hosts a, b, c):
//
//   H_C09_paused_step    acknowledged full maintenance: up to `steps` consecutive
//                        handler steps from every local state except Lost (and one
//                        round of the recovery checker), with the coordination
//                        service up, down, or up-but-failing.
//   H_C09_paused_faults  the same with transient failing DCS operations (dcs_faults).
//   H_C09_paused_outage  a process that is still Candidate / Manager when the
//                        coordination service drops: the step into Lost and the
//                        Lost handler itself.
//   H_C09_light          light mode (acknowledged or not): one manager or candidate
//                        iteration with pending requests, master failures, a repairable defect.
//   H_C09_light_faults   the same with transient failing DCS operations.
//   H_C09_leave          one leave attempt from an arbitrary operator-made topology
//                        (per-host product), racing deletion of the active list.
//   H_C09_leave_faults   the same from four representative topologies with transient
//                        failing DCS operations.
//   H_C09_enter          acknowledging full maintenance, with failing MySQL / DCS
//                        calls; candidates before the acknowledgement.
//
// "Changed" is judged on the ground truth: every mutating statement is compared
// before/after on the fake server (settings, replication configuration and
// thread state), `master` and `active_nodes` are compared with their values at
// the start. A statement without effect (SET super_read_only on a server that
// is already super-read-only) is not a change.

import (
	"strings"

	nodestate "github.com/yandex/mysync/internal/app/node_state"
	"github.com/yandex/mysync/internal/mysql"
	"github.com/yandex/mysync/internal/verifnd"
)

var verifC09Hosts = []string{"a", "b", "c"} // local host is "a"

const verifC09Bg = appState("background") // pseudo state: one round of the recovery checker

// ---------------------------------------------------------------------------
// change detector: settings / topology of every server, `master`, `active_nodes`

type verifC09Snap struct {
	ro, sro, off, rep, io, sql, ssm, sss bool
	src                                  string
	wait, flush, sync                    int
}

// c09Full: how a full-maintenance record spells its mode — "full", or no mode at all (records
// written by older tooling / by hand carry no `mode` key; everything that is not "light" is full).
func c09Full() MaintenanceMode {
	if verifnd.Choose("maintenance.mode-key", 2) == 1 {
		verifnd.Fact("mode_key", "absent")
		return ""
	}
	return FullMode
}

func verifC09Take(s *mysql.VerifServer) verifC09Snap {
	return verifC09Snap{ro: s.ReadOnly, sro: s.SuperRO, off: s.Offline, rep: s.IsReplica, io: s.IORunning, sql: s.SQLRunning,
		ssm: s.SSMaster, sss: s.SSSlave, src: s.Source, wait: s.WaitCount, flush: s.Flush, sync: s.SyncBinlog}
}

func verifC09Same(a, b verifC09Snap) bool {
	r := verifnd.And(a.ro == b.ro, a.sro == b.sro)
	r = verifnd.And(r, a.off == b.off)
	r = verifnd.And(r, a.rep == b.rep)
	r = verifnd.And(r, a.io == b.io)
	r = verifnd.And(r, a.sql == b.sql)
	r = verifnd.And(r, a.ssm == b.ssm)
	r = verifnd.And(r, a.sss == b.sss)
	r = verifnd.And(r, a.src == b.src)
	r = verifnd.And(r, a.wait == b.wait)
	r = verifnd.And(r, a.flush == b.flush)
	r = verifnd.And(r, a.sync == b.sync)
	return r
}

func verifC09ListEq(a, b []string) bool {
	if len(a) != len(b) {
		return false
	}
	for i := range a {
		if a[i] != b[i] {
			return false
		}
	}
	return true
}

type verifC09Watch struct {
	w          *verifWorld
	before     verifC09Snap
	sqlChanged bool // some statement changed a setting / the topology of a server (may be symbolic)
	statements int  // mutating statements that arrived at a server
	master0    string
	masterHad  bool
	active0    []string
	activeHad  bool
	dcsChanged bool // `master` or `active_nodes` differs from the value at installation
	// assertID: when set, the absence of a change is asserted at every checkpoint
	// (the path ends at the first offending call) instead of only after the step.
	assertID string
}

// verifC09Install starts observing. Every mutating statement is compared
// before/after on the ground truth, so a statement without effect (SET read_only
// on a read-only server) is not a change while stop+start of replication is.
func verifC09Install(w *verifWorld) *verifC09Watch {
	c := &verifC09Watch{w: w}
	c.rebase()
	w.fleet.Before = func(host, stmt string) {
		c.before = verifC09Take(w.fleet.Servers[host])
	}
	w.fleet.Checkpoint = func(host, stmt string) {
		c.statements++
		c.sqlChanged = verifnd.Or(c.sqlChanged, verifnd.Not(verifC09Same(c.before, verifC09Take(w.fleet.Servers[host]))))
		if c.assertID != "" {
			c.noteFaults()
			verifnd.Assert(verifnd.Not(c.sqlChanged), c.assertID)
			c.stopIf(c.sqlChanged)
		}
	}
	prev := w.dcs.Checkpoint
	w.dcs.Checkpoint = func(op, path string) {
		if prev != nil {
			prev(op, path)
		}
		if path == pathMasterNode || path == pathActiveNodes {
			c.compareDCS()
			if c.assertID != "" {
				c.noteFaults()
				verifnd.Assert(!c.dcsChanged, c.assertID)
				c.stopIf(c.dcsChanged)
			}
		}
	}
	return c
}

func (c *verifC09Watch) noteFaults() {
	if len(c.w.dcs.Faulted) > 0 {
		verifnd.Fact("dcs_fault", strings.Join(c.w.dcs.Faulted, ","))
	}
}

// stopIf ends the path after a reported violation (what follows the first
// forbidden change is of no interest and may be arbitrarily deep).
func (c *verifC09Watch) stopIf(violated bool) {
	if violated {
		verifnd.Reach("C09.stopped-after-violation")
		verifnd.Assume(false)
	}
}

func (c *verifC09Watch) rebase() {
	v, ok := c.w.dcs.peek(pathMasterNode)
	c.masterHad = ok
	c.master0, _ = v.(string)
	c.active0, c.activeHad = c.w.dcs.activeNodes()
	c.dcsChanged = false
	c.sqlChanged = false
	c.statements = 0
}

func (c *verifC09Watch) compareDCS() {
	v, ok := c.w.dcs.peek(pathMasterNode)
	m, _ := v.(string)
	if ok != c.masterHad || m != c.master0 {
		c.dcsChanged = true
	}
	l, ok := c.w.dcs.activeNodes()
	if ok != c.activeHad || !verifC09ListEq(l, c.active0) {
		c.dcsChanged = true
	}
}

// ---------------------------------------------------------------------------
// situations an operator may leave behind

// verifC09Role makes host a master (source == "") or a replica of source.
func verifC09Role(w *verifWorld, host, source string, running bool) {
	s := w.fleet.Servers[host]
	s.Executed = 1
	s.OwnBits = 0
	if source == "" {
		s.IsReplica, s.Source, s.IORunning, s.SQLRunning = false, "", false, false
		s.ReadOnly, s.SuperRO = false, false
		s.SSSlave = false
		s.OwnBits = 6
		return
	}
	s.IsReplica, s.Source, s.IORunning, s.SQLRunning = true, source, running, running
	s.ReadOnly, s.SuperRO = true, true
	s.LagValid, s.Lag = true, 0
	s.SSMaster = false
}

// verifC09Shape: 0 a is master, recorded a; 1 b is master, recorded b;
// 2 operator moved the master: recorded a, real master b (a, c replicate from b);
// 3 operator created a second master: recorded a, a and b are masters, c replicates from a.
// semiSyncOff / !listPublished: the state enterMaintenance leaves with
// disable_semi_sync_replication_on_maintenance (no semi-sync, no active list).
func verifC09Shape(w *verifWorld, shape int, semiSyncOff, listPublished, replicasRunning bool) (recorded string) {
	recorded = "a"
	switch shape {
	case 0:
		verifC09Role(w, "a", "", false)
		verifC09Role(w, "b", "a", replicasRunning)
		verifC09Role(w, "c", "a", replicasRunning)
	case 1:
		recorded = "b"
		verifC09Role(w, "b", "", false)
		verifC09Role(w, "a", "b", replicasRunning)
		verifC09Role(w, "c", "b", replicasRunning)
	case 2:
		verifC09Role(w, "b", "", false)
		verifC09Role(w, "a", "b", replicasRunning)
		verifC09Role(w, "c", "b", replicasRunning)
	default:
		verifC09Role(w, "a", "", false)
		verifC09Role(w, "b", "", false)
		verifC09Role(w, "c", "a", replicasRunning)
	}
	for _, h := range w.fleet.Hosts {
		s := w.fleet.Servers[h]
		if semiSyncOff {
			s.SSMaster, s.SSSlave = false, false
			continue
		}
		if s.IsReplica {
			s.SSSlave = true
		} else {
			s.SSMaster, s.WaitCount = true, 1
		}
	}
	w.dcs.seed(pathMasterNode, recorded)
	if listPublished {
		w.dcs.seed(pathActiveNodes, append([]string{}, w.ha...))
	}
	w.syncGTIDOwners()
	return recorded
}

func verifC09SetConn(w *verifWorld, mode int) string {
	switch mode {
	case 1:
		w.dcs.Connected, w.dcs.Down = false, true
		return "down"
	case 2:
		w.dcs.Connected, w.dcs.Down = true, true
		return "failing"
	}
	w.dcs.Connected, w.dcs.Down = true, false
	return "up"
}

func verifC09Step(app *App, st appState) appState {
	switch st {
	case stateFirstRun:
		return app.stateFirstRun()
	case stateManager:
		return app.stateManager()
	case stateCandidate:
		return app.stateCandidate()
	case stateLost:
		return app.stateLost()
	case stateMaintenance:
		return app.stateMaintenance()
	case verifC09Bg:
		// one round of recoveryChecker
		app.checkRecovery()
		app.checkCrashRecovery()
		app.SetResetupStatus()
		return verifC09Bg
	}
	panic("verif: unknown state")
}

// ---------------------------------------------------------------------------
// acknowledged full maintenance

type verifC09PausedOpts struct {
	starts      []appState
	runLost     bool // execute the Lost handler when a step leads there
	connPerStep bool // the connection may change between the steps
	firstConn   int  // -1: any; else the connection mode of the first step
	dcsFaults   int  // default of the dcs_faults parameter
}

func verifC09Paused(o verifC09PausedOpts) {
	steps := verifnd.Param("steps", 2)
	start := o.starts[verifnd.Choose("start", len(o.starts))]
	shape := verifnd.Choose("shape", 4)
	// (debugging aids: restrict the exploration to one start state / one situation)
	if k := verifnd.Param("only_start", -1); k >= 0 {
		verifnd.Assume(start == o.starts[k])
	}
	if k := verifnd.Param("only_shape", -1); k >= 0 {
		verifnd.Assume(shape == k)
	}
	cfg := verifConfig("a")
	cfg.DisableSemiSyncReplicationOnMaintenance = verifnd.Choose("cfg.disable_semisync", 2) == 1
	cfg.ResetupCrashedHosts = true
	managerish := start == stateManager || start == stateFirstRun
	fileAtStart := start == stateMaintenance
	pending, masterHealthBad := 0, false
	if managerish {
		fileAtStart = verifnd.Choose("marker_file", 2) == 1
		// things that would make an unfrozen manager act
		pending = verifnd.Choose("pending", 3)
		if k := verifnd.Param("only_pending", -1); k >= 0 {
			verifnd.Assume(pending == k)
		}
		masterHealthBad = verifnd.Choose("master_health_bad", 2) == 1
		if pending == 1 {
			// a planned switchover of a semi-sync cluster starts with the "turbo" phase
			// (ticker + goroutine, C19's subject, not modelled here); nothing before the
			// maintenance check depends on this option
			cfg.SemiSync = false
		}
	}
	w := verifNewWorld(cfg, verifC09Hosts, nil)
	w.dcs.LockMode = 1
	replicasRunning := true
	if start == stateLost || o.runLost {
		// the operator may have stopped the replicas for the maintenance
		replicasRunning = verifnd.Choose("replicas_running", 2) == 1
	}
	recorded := verifC09Shape(w, shape, cfg.DisableSemiSyncReplicationOnMaintenance, !cfg.DisableSemiSyncReplicationOnMaintenance, replicasRunning)
	verifDaemonState = &nodestate.DaemonState{}
	verifPublishHealth(w)
	fullMode := c09Full()
	w.dcs.seed(pathMaintenance, &Maintenance{InitiatedBy: "operator", MySyncPaused: true, Mode: fullMode})
	switch pending {
	case 1:
		w.dcs.seed(pathCurrentSwitch, &Switchover{From: recorded, Cause: CauseManual, InitiatedBy: "operator", MasterTransition: SwitchoverTransition})
	case 2:
		w.dcs.seed(pathCurrentSwitch, &Switchover{From: recorded, Cause: CauseManual, InitiatedBy: "operator", MasterTransition: FailoverTransition})
	}
	if masterHealthBad {
		w.dcs.seed("health/"+recorded, &nodestate.NodeState{PingOk: false})
	}
	if start == verifC09Bg {
		if verifnd.Choose("recovery_marked", 2) == 1 {
			w.dcs.seed(pathRecovery, nil)
			w.dcs.seed(pathRecovery+"/a", nil)
		}
	}
	if fileAtStart {
		verifnd.Files[cfg.Maintenancefile] = ""
	}
	w.dcs.FaultBudget = verifnd.Param("dcs_faults", o.dcsFaults)
	w.fleet.FaultBudget = verifnd.Param("sql_faults", 0)
	w.fleet.FaultKinds = 2

	verifnd.Fact("start", string(start))
	if managerish {
		verifnd.Fact("marker_file", map[bool]string{true: "present", false: "absent"}[fileAtStart])
	}
	verifnd.Fact("shape", string(rune('0'+shape)))
	watch := verifC09Install(w)
	if verifnd.Param("stop_at_first", 1) == 1 {
		watch.assertID = "paused.no-mutation"
	}

	st := start
	w.app.state = st
	conn := 0
	connTrace := ""
	for i := 0; i < steps; i++ {
		if i == 0 || o.connPerStep || verifnd.Param("vary_conn", 0) == 1 {
			if i == 0 && o.firstConn >= 0 {
				conn = o.firstConn
			} else {
				conn = verifnd.Choose("conn", 3)
			}
		}
		name := verifC09SetConn(w, conn)
		connTrace += name + ";"
		verifnd.Fact("conn", connTrace)
		hadFile := w.app.doesMaintenanceFileExist()
		fb := w.dcs.FaultBudget
		locks := len(w.dcs.LockAnswers)
		verifnd.Event("step " + string(st) + " dcs=" + name)
		next := verifC09Step(w.app, st)
		verifnd.Event("next " + string(next))
		faulted := w.dcs.FaultBudget != fb
		if faulted {
			verifnd.Fact("dcs_fault", strings.Join(w.dcs.Faulted, ","))
		}

		// ---- the property: nothing changed
		recordNow, _ := w.dcs.peek(pathMaintenance)
		verifnd.Assert(verifnd.Not(watch.sqlChanged), "paused.no-mutation")
		verifnd.Assert(!watch.dcsChanged, "paused.no-mutation")
		rec, _ := recordNow.(Maintenance)
		verifnd.Assert(rec.MySyncPaused && !rec.ShouldLeave && rec.Mode == fullMode && rec.InitiatedBy == "operator", "paused.record-kept")

		// ---- next state
		lockGranted := len(w.dcs.LockAnswers) > locks && w.dcs.LockAnswers[len(w.dcs.LockAnswers)-1]
		switch st {
		case stateMaintenance:
			verifnd.Assert(next == stateMaintenance, "paused.next-state")
			verifnd.Assert(w.app.doesMaintenanceFileExist(), "paused.marker-file")
			verifnd.Reach("C09.paused.maintenance-stays." + name)
		case stateCandidate:
			verifnd.Assert(next != stateManager && next != stateFirstRun, "paused.next-state")
			if conn == 0 && !faulted {
				verifnd.Assert(next == stateMaintenance, "paused.next-state")
				verifnd.Reach("C09.paused.candidate-follows")
			}
			if conn == 1 {
				verifnd.Assert(next == stateLost || next == stateMaintenance, "paused.next-state")
			}
		case stateManager:
			verifnd.Assert(next != stateFirstRun, "paused.next-state")
			if conn == 0 && !faulted {
				if lockGranted {
					verifnd.Assert(next == stateMaintenance, "paused.next-state")
					verifnd.Reach("C09.paused.manager-pauses")
				} else {
					verifnd.Assert(next == stateCandidate, "paused.next-state")
				}
			}
			if next == stateManager {
				// staying an active manager is only acceptable after a failed read
				verifnd.Assert(conn != 0 || faulted, "paused.next-state")
			}
		case stateFirstRun:
			switch {
			case conn == 1 && hadFile:
				verifnd.Assert(next == stateMaintenance, "paused.restart-with-file")
				verifnd.Reach("C09.paused.restart-file-no-connection")
			case conn == 1:
				verifnd.Assert(next == stateFirstRun, "paused.next-state")
				verifnd.Reach("C09.paused.restart-nofile-no-connection")
			default:
				verifnd.Assert(next == stateManager || next == stateCandidate, "paused.next-state")
				verifnd.Reach("C09.paused.restart-connected")
			}
		case stateLost:
			if conn == 1 {
				// (pausing on the marker file would be just as good as staying Lost)
				verifnd.Assert(next == stateLost || next == stateMaintenance, "paused.next-state")
				verifnd.Reach("C09.paused.lost-stays")
			} else {
				verifnd.Assert(next == stateCandidate, "paused.next-state")
			}
		case verifC09Bg:
			verifnd.Reach("C09.paused.background")
		}
		if next == st {
			break
		}
		st = next
		w.app.state = st
		if st == stateLost && !o.runLost {
			verifnd.Reach("C09.paused.to-lost")
			break
		}
	}
	verifnd.Reach("C09.paused.end." + string(st))
}

var verifC09PausedStarts = []appState{stateMaintenance, stateManager, stateCandidate, stateFirstRun, verifC09Bg}

// H_C09_paused_step: coordination service up / down / failing as a whole.
func H_C09_paused_step() {
	verifC09Paused(verifC09PausedOpts{starts: verifC09PausedStarts, firstConn: -1})
}

// H_C09_paused_faults: coordination service up with transient failing operations (dcs_faults ≥ 1).
func H_C09_paused_faults() {
	verifC09Paused(verifC09PausedOpts{starts: verifC09PausedStarts, firstConn: 0, dcsFaults: 1})
}

// H_C09_paused_outage: the coordination service drops while this process is still
// Candidate / Manager (it has not run the Maintenance handler since the
// acknowledgement, so it has no marker file), or is already Lost.
func H_C09_paused_outage() {
	verifC09Paused(verifC09PausedOpts{starts: []appState{stateCandidate, stateManager}, runLost: true, connPerStep: true, firstConn: 1})
}

// ---------------------------------------------------------------------------
// light maintenance

func verifC09HasPrefix(log []string, prefix string) bool {
	for _, e := range log {
		if strings.HasPrefix(e, prefix) {
			return true
		}
	}
	return false
}

func verifC09Wrote(writes []string, path string) bool {
	for _, e := range writes {
		if strings.HasSuffix(e, " "+path) {
			return true
		}
	}
	return false
}

// H_C09_light: one iteration of the manager (or of a candidate) while a light
// maintenance record exists.
func H_C09_light() { verifC09Light(0) }

// H_C09_light_faults: the same with one transient failing DCS operation.
func H_C09_light_faults() { verifC09Light(1) }

func verifC09Light(defaultFaults int) {
	cfg := verifConfig("a")
	cfg.FailoverDelay = 0 // a failing master is eligible for automatic failover at once
	cfg.ResetupCrashedHosts = true
	acked := verifnd.Choose("acked", 2) == 1
	candidate := verifnd.Choose("role", 2) == 1
	// request: 0 none, 1 planned switchover, 2 operator-forced failover, 3 automatic failover filed earlier
	// failure: 0 none, 1 master dead (health: ping failed), 2 master file system read-only, 3 master after crash recovery
	// defect:  0 none, 1 replica b stopped (repairable)
	request, failure, defect := 0, 0, 0
	if !candidate {
		request = verifnd.Choose("request", 4)
		if request != 1 {
			failure = verifnd.Choose("failure", 4)
		}
		defect = verifnd.Choose("defect", 2)
		if request == 1 {
			// with semi-sync the planned switchover begins with the turbo phase (not modelled here):
			// then the harness only observes that the request was started
			cfg.SemiSync = verifnd.Choose("cfg.semisync", 2) == 1
		}
	}
	w := verifNewWorld(cfg, verifC09Hosts, nil)
	w.dcs.LockMode = 1
	verifC09Shape(w, 0, !cfg.SemiSync, true, true)
	if defect == 1 {
		b := w.fleet.Servers["b"]
		b.IORunning, b.SQLRunning = false, false
	}
	verifDaemonState = &nodestate.DaemonState{}
	verifPublishHealth(w)
	masterAlive := true
	switch failure {
	case 1:
		masterAlive = false
		w.fleet.Servers["a"].Alive = false
		for _, h := range []string{"b", "c"} {
			w.fleet.Servers[h].IORunning = false
			ns := nodestate.NodeState{}
			v, _ := w.dcs.peek("health/" + h)
			ns = v.(nodestate.NodeState)
			ss := *ns.SlaveState
			ss.ReplicationState = mysql.ReplicationError
			ns.SlaveState = &ss
			w.dcs.seed("health/"+h, &ns)
		}
		w.dcs.seed("health/a", &nodestate.NodeState{PingOk: false})
	case 2:
		v, _ := w.dcs.peek("health/a")
		ns := v.(nodestate.NodeState)
		ns.IsFileSystemReadonly = true
		w.dcs.seed("health/a", &ns)
	case 3:
		v, _ := w.dcs.peek("health/a")
		ns := v.(nodestate.NodeState)
		ns.DaemonState = &nodestate.DaemonState{CrashRecovery: true}
		w.dcs.seed("health/a", &ns)
	}
	rec := Maintenance{InitiatedBy: "operator", MySyncPaused: acked, Mode: LightMode}
	w.dcs.seed(pathMaintenance, &rec)
	var req *Switchover
	switch request {
	case 1:
		req = &Switchover{From: "a", Cause: CauseManual, InitiatedBy: "operator", MasterTransition: SwitchoverTransition}
	case 2:
		req = &Switchover{From: "a", Cause: CauseManual, InitiatedBy: "operator", MasterTransition: FailoverTransition}
	case 3:
		req = &Switchover{From: "a", Cause: CauseAuto, InitiatedBy: "c", MasterTransition: FailoverTransition}
	}
	if req != nil {
		w.dcs.seed(pathCurrentSwitch, req)
	}
	verifnd.Fact("request", string(rune('0'+request)))
	verifnd.Fact("failure", string(rune('0'+failure)))
	w.dcs.FaultBudget = verifnd.Param("dcs_faults", defaultFaults)

	if candidate {
		next := w.app.stateCandidate()
		// light mode pauses nobody
		verifnd.Assert(next != stateMaintenance, "light.not-paused")
		verifnd.Assert(len(w.fleet.Log) == 0, "light.candidate-idle")
		verifnd.Reach("C09.light.candidate." + string(next))
		return
	}

	started := false
	fullSwitchover := verifnd.Param("full_switchover", 0) == 1
	prev := w.dcs.Checkpoint
	w.dcs.Checkpoint = func(op, path string) {
		if prev != nil {
			prev(op, path)
		}
		if path == pathCurrentSwitch || path == pathLastSwitch || path == pathLastRejectedSwitch {
			// failover-type activity: a failover-type request is touched, or a new request is filed
			if request == 0 || request == 2 || request == 3 {
				if len(w.dcs.Faulted) > 0 {
					verifnd.Fact("dcs_fault", strings.Join(w.dcs.Faulted, ","))
				}
				verifnd.Event("failover activity: " + op + " " + path)
				verifnd.Assert(false, "light.no-failover")
				verifnd.Assume(false) // what follows is the failover itself (C01)
			}
		}
		if path == pathCurrentSwitch && op == "set" && request == 1 {
			v, _ := w.dcs.peek(pathCurrentSwitch)
			sw, _ := v.(Switchover)
			if sw.StartedBy == "a" && sw.Result == nil {
				started = true
				verifnd.Reach("C09.light.planned-started")
				if cfg.SemiSync || !fullSwitchover {
					// nothing after this point looks at the maintenance record (and with
					// semi-sync the unmodelled turbo phase follows): the rest is C01's subject
					verifnd.Assume(false)
				}
			}
		}
	}

	next := w.app.stateManager()
	lockGranted := len(w.dcs.LockAnswers) > 0 && w.dcs.LockAnswers[0]
	if !lockGranted {
		verifnd.Assert(next == stateCandidate, "light.next-state")
		verifnd.Assert(len(w.fleet.Log) == 0, "light.candidate-idle")
		return
	}
	faulted := len(w.dcs.Faulted) > 0
	if faulted {
		verifnd.Fact("dcs_fault", strings.Join(w.dcs.Faulted, ","))
		verifnd.Reach("C09.light.faulted")
	}
	verifnd.Assert(next == stateManager, "light.not-paused")

	recNow, _ := w.dcs.peek(pathMaintenance)
	r, _ := recNow.(Maintenance)
	verifnd.Assert(r.Mode == LightMode && !r.ShouldLeave, "light.acknowledged")
	if !faulted {
		verifnd.Assert(r.MySyncPaused, "light.acknowledged")
	}

	swNow, swExists := w.dcs.peek(pathCurrentSwitch)
	switch request {
	case 0:
		// no automatic failover is filed, whatever the failure
		verifnd.Assert(!swExists, "light.no-failover")
		verifnd.Assert(w.dcs.masterHost() == "a", "light.no-failover")
		if failure != 0 {
			verifnd.Reach("C09.light.auto-failover-suppressed." + string(rune('0'+failure)))
		}
	case 2, 3:
		// a failover-type request is parked: neither started, nor rejected, nor finished
		sw, _ := swNow.(Switchover)
		verifnd.Assert(swExists && sw.StartedBy == "" && sw.StartedAt.IsZero() && sw.Result == nil && sw.RunCount == 0, "light.no-failover")
		verifnd.Assert(!verifC09Wrote(w.dcs.Writes, pathLastSwitch) && !verifC09Wrote(w.dcs.Writes, pathLastRejectedSwitch) && !verifC09Wrote(w.dcs.Writes, pathCurrentSwitch), "light.no-failover")
		verifnd.Assert(w.dcs.masterHost() == "a", "light.no-failover")
		verifnd.Reach("C09.light.failover-request-parked")
	case 1:
		if faulted {
			break
		}
		// planned switchover goes on (healthy cluster, no failing call): started, and here also finished
		verifnd.Assert(started, "light.planned-proceeds")
		for _, a := range w.dcs.LockAnswers {
			if !a {
				return // the lock was lost on the way: the attempt is abandoned (C01/C03)
			}
		}
		last, ok := w.dcs.peek(pathLastSwitch)
		ls, _ := last.(Switchover)
		verifnd.Assert(ok && ls.Result != nil && ls.Result.Ok, "light.planned-proceeds")
		verifnd.Assert(w.dcs.masterHost() != "a" && w.dcs.masterHost() != "", "light.planned-proceeds")
		nm := w.fleet.Servers[w.dcs.masterHost()]
		verifnd.Assert(nm != nil && verifnd.And(verifnd.Not(nm.ReadOnly), !nm.IsReplica), "light.planned-proceeds")
		verifnd.Reach("C09.light.planned-finished")
	}
	if request != 1 {
		// no promotion of anybody
		for _, h := range []string{"b", "c"} {
			s := w.fleet.Servers[h]
			verifnd.Assert(verifnd.And(s.ReadOnly, s.IsReplica), "light.no-failover")
		}
		// repairs continue as long as the manager can reach the master
		if defect == 1 && masterAlive && !faulted {
			verifnd.Assert(verifC09HasPrefix(w.fleet.Log, "b:start_"), "light.repairs-continue")
			verifnd.Assert(verifnd.And(w.fleet.Servers["b"].IORunning, w.fleet.Servers["b"].SQLRunning), "light.repairs-continue")
			verifnd.Reach("C09.light.repaired")
		}
	}
}

// ---------------------------------------------------------------------------
// leaving maintenance

// H_C09_leave: one leave attempt (record with should_leave, or record gone) from
// an arbitrary topology the operator left behind.
//   via 0: full mode, acknowledged, should_leave    → stateMaintenance
//   via 1: record removed                           → stateMaintenance
//   via 2: light mode, should_leave                 → stateManager
// per host: 0 dead, 1 master (writable), 2 replica of the next host, 3 replica of the previous host
func H_C09_leave() { verifC09Leave(0, false) }

// H_C09_leave_faults: one transient failing DCS operation at any point of the leave
// attempt, from four representative topologies (fleet 0: a master, b and c its
// replicas; 1: master moved to b, a follows b, c still follows a; 2: a and b
// masters; 3: a dead, no master), semi-sync configured.
func H_C09_leave_faults() { verifC09Leave(1, true) }

var verifC09LeaveFleets = [][]int{{1, 3, 3}, {2, 1, 3}, {1, 1, 3}, {0, 3, 2}}

func verifC09Leave(defaultFaults int, small bool) {
	cfg := verifConfig("a")
	via := verifnd.Choose("via", 3)
	cfg.DisableSemiSyncReplicationOnMaintenance = verifnd.Choose("cfg.disable_semisync", 2) == 1
	cfg.SemiSync = true
	var fleetStates []int
	if small {
		fleetStates = verifC09LeaveFleets[verifnd.Choose("fleet", len(verifC09LeaveFleets))]
	} else {
		cfg.SemiSync = verifnd.Choose("cfg.semisync", 2) == 1
	}
	w := verifNewWorld(cfg, verifC09Hosts, nil)
	w.dcs.LockMode = 1

	listDeleted := cfg.DisableSemiSyncReplicationOnMaintenance && via != 2
	masters := 0 // alive masters (ground truth)
	theMaster := ""
	hostStates := verifnd.Param("host_states", 3) // 3: dead / master / replica of the next host; 4: + replica of the previous host
	n := len(verifC09Hosts)
	for i, h := range verifC09Hosts {
		s := w.fleet.Servers[h]
		hs := 0
		if small {
			hs = fleetStates[i]
		} else {
			hs = verifnd.Choose("state."+h, hostStates)
		}
		switch hs {
		case 0:
			verifC09Role(w, h, verifC09Hosts[(i+1)%n], false)
			s.Alive = false
		case 1:
			verifC09Role(w, h, "", false)
			masters++
			theMaster = h
		case 2:
			verifC09Role(w, h, verifC09Hosts[(i+1)%n], true)
		default:
			verifC09Role(w, h, verifC09Hosts[(i+n-1)%n], true)
		}
		if !listDeleted && cfg.SemiSync {
			if s.IsReplica {
				s.SSSlave = true
			} else {
				s.SSMaster, s.WaitCount = true, 1
			}
		}
	}
	w.syncGTIDOwners()
	// what the store remembers from before the maintenance: a was the master
	w.dcs.seed(pathMasterNode, "a")
	if !listDeleted {
		w.dcs.seed(pathActiveNodes, append([]string{}, w.ha...))
	}
	verifDaemonState = &nodestate.DaemonState{}
	verifPublishHealth(w)
	switch via {
	case 0:
		w.dcs.seed(pathMaintenance, &Maintenance{InitiatedBy: "operator", MySyncPaused: true, ShouldLeave: true, Mode: c09Full()})
		verifnd.Files[cfg.Maintenancefile] = ""
	case 1:
		verifnd.Files[cfg.Maintenancefile] = ""
	default:
		w.dcs.seed(pathMaintenance, &Maintenance{InitiatedBy: "operator", MySyncPaused: true, ShouldLeave: true, Mode: LightMode})
	}
	recBefore, _ := w.dcs.peek(pathMaintenance)
	verifnd.Fact("via", string(rune('0'+via)))
	verifnd.Fact("masters", string(rune('0'+masters)))

	w.dcs.FaultBudget = verifnd.Param("dcs_faults", defaultFaults)
	race := verifnd.Param("race", 1) == 1
	raced := false
	listWritten := false
	reachedDelete := false
	w.dcs.Checkpoint = func(op, path string) {
		if path == pathActiveNodes && op == "set" {
			listWritten = true
			// another process (a former manager finishing its enterMaintenance) removes the list
			if race && verifnd.Choose("race.delete_active_nodes", 2) == 1 {
				raced = true
				verifnd.Event("other process deletes active_nodes")
				w.dcs.unseed(pathActiveNodes)
			}
		}
	}
	w.dcs.Before = func(op, path string) {
		if op != "delete" || path != pathMaintenance {
			return
		}
		// ---- the moment the maintenance record is given up
		reachedDelete = true
		verifnd.Assert(masters == 1, "leave.exactly-one-master")
		verifnd.Assert(masters != 1 || w.dcs.masterHost() == theMaster, "leave.master-recorded")
		list, ok := w.dcs.activeNodes()
		verifnd.Assert(ok && len(list) > 0, "leave.list-nonempty")
		verifnd.Assert(listWritten, "leave.list-rebuilt")
		verifnd.Reach("C09.leave.delete-reached")
	}

	var next appState
	if via == 2 {
		next = w.app.stateManager()
	} else {
		next = w.app.stateMaintenance()
	}
	faulted := len(w.dcs.Faulted) > 0
	if faulted {
		verifnd.Fact("dcs_fault", strings.Join(w.dcs.Faulted, ","))
	}
	lockGranted := len(w.dcs.LockAnswers) > 0
	for _, a := range w.dcs.LockAnswers {
		lockGranted = lockGranted && a
	}
	recAfter, recExists := w.dcs.peek(pathMaintenance)
	_, emerge := verifnd.Files[cfg.Emergefile]

	if masters != 1 {
		// otherwise the mode is kept
		verifnd.Assert(!reachedDelete, "leave.kept-otherwise")
		verifnd.Assert(recExists == (via != 1) && recAfter == recBefore, "leave.kept-otherwise")
		if via != 2 {
			// (in light mode nobody is paused: the manager may simply stay manager)
			verifnd.Assert(next != stateManager, "leave.kept-otherwise")
		}
		verifnd.Reach("C09.leave.kept.masters-" + string(rune('0'+masters)))
	}
	if masters >= 2 && lockGranted && !faulted {
		verifnd.Assert(emerge, "leave.many-masters-emerge")
		verifnd.Reach("C09.leave.emerge")
	}
	if masters < 2 {
		verifnd.Assert(!emerge, "leave.emerge-only-many-masters")
	}
	if raced && !faulted {
		verifnd.Assert(recExists == (via != 1) && recAfter == recBefore, "leave.list-nonempty")
		verifnd.Reach("C09.leave.kept.list-vanished")
	}
	if reachedDelete && !recExists && via != 1 {
		verifnd.Assert(next == stateManager, "leave.next-state")
		_, file := verifnd.Files[cfg.Maintenancefile]
		verifnd.Assert(!file, "leave.marker-file-removed")
		verifnd.Reach("C09.leave.left")
	}
	if masters == 1 && lockGranted && !faulted && !raced {
		verifnd.Reach("C09.leave.one-master-attempt")
		if reachedDelete {
			verifnd.Reach("C09.leave.one-master-left")
		}
	}
	if !lockGranted {
		verifnd.Assert(!reachedDelete, "leave.only-manager")
		verifnd.Reach("C09.leave.lock-refused")
	}
}

// ---------------------------------------------------------------------------
// entering full maintenance

// H_C09_enter: a full-mode request that nobody acknowledged yet. role 0: one
// manager iteration (with failing MySQL / DCS calls); role 1: one candidate iteration.
func H_C09_enter() {
	cfg := verifConfig("a")
	cfg.DisableSemiSyncReplicationOnMaintenance = verifnd.Choose("cfg.disable_semisync", 2) == 1
	candidate := verifnd.Choose("role", 2) == 1
	shape := verifnd.Choose("shape", 2) // local host is the master / a replica
	w := verifNewWorld(cfg, verifC09Hosts, nil)
	w.dcs.LockMode = 1
	master := verifC09Shape(w, shape, false, true, true)
	verifDaemonState = &nodestate.DaemonState{}
	verifPublishHealth(w)
	enterMode := c09Full()
	w.dcs.seed(pathMaintenance, &Maintenance{InitiatedBy: "operator", Mode: enterMode})
	// faultmode 0: no failing call, a switch request may be pending; 1: a failing (or
	// applied-but-reply-lost) mutating MySQL statement; 2: a failing DCS operation
	faultmode := 0
	if !candidate {
		faultmode = verifnd.Choose("faultmode", 3)
	}
	switch faultmode {
	case 0:
		if !candidate {
			switch verifnd.Choose("pending", 3) {
			case 1:
				w.dcs.seed(pathCurrentSwitch, &Switchover{From: master, Cause: CauseManual, InitiatedBy: "operator", MasterTransition: SwitchoverTransition})
			case 2:
				w.dcs.seed(pathCurrentSwitch, &Switchover{From: master, Cause: CauseAuto, InitiatedBy: "c", MasterTransition: FailoverTransition})
			}
		}
	case 1:
		budget := verifnd.Param("sql_faults", 1)
		w.fleet.FaultKinds = 2
		w.fleet.Before = func(host, stmt string) {
			// only mutating statements fail (failing reads merely change what the manager sees)
			w.fleet.FaultBudget = budget - len(w.fleet.FaultsUsed)
		}
	case 2:
		w.dcs.FaultBudget = verifnd.Param("dcs_faults", 1)
	}

	if candidate {
		next := w.app.stateCandidate()
		// candidates follow only after the manager's acknowledgement
		verifnd.Assert(next != stateMaintenance, "enter.candidate-waits-for-ack")
		_, file := verifnd.Files[cfg.Maintenancefile]
		verifnd.Assert(!file, "enter.candidate-waits-for-ack")
		verifnd.Reach("C09.enter.candidate." + string(next))
		return
	}

	acked := false
	stmtsAtAck, writesAtAck := 0, 0
	w.dcs.Checkpoint = func(op, path string) {
		if path != pathMaintenance {
			return
		}
		v, _ := w.dcs.peek(pathMaintenance)
		rec, _ := v.(Maintenance)
		if !rec.MySyncPaused || acked {
			return
		}
		// ---- the acknowledgement becomes visible
		acked = true
		stmtsAtAck, writesAtAck = len(w.fleet.Log), len(w.dcs.Writes)
		if cfg.DisableSemiSyncReplicationOnMaintenance {
			m := w.fleet.Servers[master]
			verifnd.Assert(verifnd.Not(m.SSMaster), "enter.ack-last")
			_, list := w.dcs.activeNodes()
			verifnd.Assert(!list, "enter.ack-last")
			verifnd.Reach("C09.enter.ack-after-semisync-off-and-list-delete")
		} else {
			verifnd.Reach("C09.enter.ack-plain")
		}
		verifnd.Assert(rec.Mode == enterMode && !rec.ShouldLeave && rec.InitiatedBy == "operator", "enter.record-kept")
	}

	next := w.app.stateManager()
	if acked {
		// nothing follows the acknowledgement in this iteration, and the process pauses
		verifnd.Assert(len(w.fleet.Log) == stmtsAtAck && len(w.dcs.Writes) == writesAtAck, "enter.ack-last")
		verifnd.Assert(next == stateMaintenance, "enter.next-state")
		verifnd.Reach("C09.enter.acknowledged")
	} else {
		verifnd.Assert(next != stateMaintenance, "enter.next-state")
		v, _ := w.dcs.peek(pathMaintenance)
		rec, _ := v.(Maintenance)
		verifnd.Assert(!rec.MySyncPaused, "enter.next-state")
		if len(w.fleet.FaultsUsed) > 0 || len(w.dcs.Faulted) > 0 {
			verifnd.Reach("C09.enter.failed-call-no-ack")
		}
	}
	// entering never touches the pending request, the recorded master, or any replica
	verifnd.Assert(w.dcs.masterHost() == master, "enter.master-kept")
}
