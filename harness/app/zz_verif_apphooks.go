package app

import (
	"time"

	nodestate "github.com/yandex/mysync/internal/app/node_state"
	"github.com/yandex/mysync/internal/app/optimization"
	"github.com/yandex/mysync/internal/log"
	"github.com/yandex/mysync/internal/verifnd"
)

// verifDaemonState is what the intercepted getLocalDaemonState returns (nil = error).
var verifDaemonState *nodestate.DaemonState

func verifInstallAppHooks() {
	// exec.Command of the log_timing hook → event
	VerifHook_App_logTiming = func(app *App, name string, d time.Duration) {
		verifnd.Event("log_timing " + name)
	}
	// daemon start / crash-recovery times come from /proc and the error log
	VerifHook_App_getLocalDaemonState = func(app *App) (*nodestate.DaemonState, error) {
		if verifDaemonState == nil {
			return nil, ErrVerifDCS
		}
		return verifDaemonState, nil
	}
	// sequential fork-join (closures touch per-host state plus a mutex-guarded append)
	VerifHook_getNodeStatesInParallel = func(hosts []string, getter func(string) (*nodestate.NodeState, error), logger *log.Logger) (map[string]*nodestate.NodeState, error) {
		clusterState := make(map[string]*nodestate.NodeState)
		var err error
		for _, host := range hosts {
			st, e := getter(host)
			if e != nil {
				err = e
			} else {
				clusterState[host] = st
			}
		}
		if err != nil {
			return nil, err
		}
		for _, host := range hosts {
			if clusterState[host] == nil || clusterState[host].SlaveState == nil {
				continue
			}
			masterHost := clusterState[host].SlaveState.MasterHost
			if clusterState[masterHost] != nil {
				clusterState[host].MasterState = clusterState[masterHost].MasterState
			}
		}
		return clusterState, nil
	}
}

func verifInstallOpt(w *verifWorld) {
	w.app.initializeOptimizationModule()
}

func verifStoreOpt(v any) (any, bool) {
	switch x := v.(type) {
	case *optimization.DCSState:
		return *x, true
	case optimization.DCSState:
		return x, true
	}
	return nil, false
}

func verifLoadOpt(v any, dest any) (ok bool, handled bool) {
	switch dst := dest.(type) {
	case *optimization.DCSState:
		if x, ok := v.(optimization.DCSState); ok {
			*dst = x
			return true, true
		}
		return false, true
	}
	return false, false
}
