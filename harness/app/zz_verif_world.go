package app

// Fake coordination store at the dcs.DCS level (DESIGN §3.2a) and the App
// builder used by every app-level harness. The real appDCS, app_dcs.go,
// mysql.Cluster registry and the optimisation DCS adapter run on top of it.

import (
	"errors"
	"sort"
	"strings"
	"time"

	nodestate "github.com/yandex/mysync/internal/app/node_state"
	"github.com/google/uuid"
	"github.com/yandex/mysync/internal/config"
	"github.com/yandex/mysync/internal/dcs"
	"github.com/yandex/mysync/internal/mysql"
	"github.com/yandex/mysync/internal/verifnd"
)

var ErrVerifDCS = errors.New("fake dcs: connection lost")

type verifDCS struct {
	nodes map[string]any
	eph   map[string]bool
	order []string // creation order (children are listed in this order)

	Connected   bool // answer of IsConnected
	Down        bool // outage: every operation fails (no budget, no event), locks are refused
	LockMode    int  // 0: always true; 1: symbolic per call; 2: always false
	LockAnswers []bool
	FaultBudget int // failing operations left
	FaultOnReadsOnly bool
	Writes      []string
	Faulted     []string // injected failures, as "op path"
	Quiet       bool
	// Checkpoint is called after every mutating operation.
	Checkpoint func(op, path string)
	Before     func(op, path string)
	// Lazy (optional) is called at the start of every operation with the normalised
	// path, before Before/fault injection: a harness may seed the node on first access
	// (arbitrary pre-state drawn only on the paths that look at it).
	Lazy     func(path string)
	Released int // ReleaseLock calls
}

func newVerifDCS() *verifDCS {
	return &verifDCS{nodes: map[string]any{"": struct{}{}}, eph: map[string]bool{}, Connected: true}
}

func verifNorm(p string) string {
	parts := strings.Split(p, "/")
	var out []string
	for _, x := range parts {
		if x != "" {
			out = append(out, x)
		}
	}
	return strings.Join(out, "/")
}

func verifParent(p string) string {
	i := strings.LastIndex(p, "/")
	if i < 0 {
		return ""
	}
	return p[:i]
}

func (d *verifDCS) has(p string) bool { _, ok := d.nodes[p]; return ok }

func (d *verifDCS) fault(op, p string, mutating bool) bool {
	if d.Down {
		return true
	}
	if d.FaultBudget <= 0 || (mutating && d.FaultOnReadsOnly) {
		return false
	}
	if verifnd.Choose("dcsfault."+op+"."+p, 2) == 1 {
		d.FaultBudget--
		d.Faulted = append(d.Faulted, op+" "+p)
		if !d.Quiet {
			verifnd.Event("dcs-fault " + op + " " + p)
		}
		return true
	}
	return false
}

func (d *verifDCS) put(p string, v any, eph bool) {
	if !d.has(p) {
		d.order = append(d.order, p)
	}
	d.nodes[p] = v
	if eph {
		d.eph[p] = true
	}
}

// verifStore normalises a value for storage (by value, deep enough that later
// mutation of the caller's object does not change the tree).
func verifStore(v any) any {
	switch x := v.(type) {
	case nil:
		return nil
	case *Switchover:
		c := *x
		if x.Result != nil {
			r := *x.Result
			c.Result = &r
		}
		return c
	case Switchover:
		return verifStore(&x)
	case *Maintenance:
		return *x
	case Maintenance:
		return x
	case *nodestate.NodeState:
		return *x
	case nodestate.NodeState:
		return x
	case []string:
		return append([]string{}, x...)
	case string, bool, time.Time, struct{}:
		return x
	case *mysql.ResetupStatus:
		return *x
	case mysql.ResetupStatus:
		return x
	case mysql.NodeConfiguration:
		return x
	case *mysql.NodeConfiguration:
		return *x
	case mysql.CascadeNodeConfiguration:
		return x
	case *mysql.CascadeNodeConfiguration:
		return *x
	case *mysql.ReplicationSettings:
		return *x
	case mysql.ReplicationSettings:
		return x
	}
	if ov, ok := verifStoreOpt(v); ok {
		return ov
	}
	panic("fake dcs: value type not modelled")
}

func (d *verifDCS) IsConnected() bool { return d.Connected }
func (d *verifDCS) WaitConnected(timeout time.Duration) bool { return d.Connected }
func (d *verifDCS) Initialize()                              {}
func (d *verifDCS) SetDisconnectCallback(callback func() error) {}
func (d *verifDCS) Close()                                   {}

func (d *verifDCS) AcquireLock(path string) bool {
	r := true
	if d.Down {
		d.LockAnswers = append(d.LockAnswers, false)
		verifnd.Event("lock refused")
		return false
	}
	switch d.LockMode {
	case 1:
		r = verifnd.Choose("lock.acquire", 2) == 0 // decided per call (callers branch on it immediately)
	case 2:
		r = false
	}
	d.LockAnswers = append(d.LockAnswers, r)
	if r {
		verifnd.Event("lock confirmed")
	} else {
		verifnd.Event("lock refused")
	}
	return r
}

func (d *verifDCS) ReleaseLock(path string) { d.Released++; verifnd.Event("lock released") }

func (d *verifDCS) lazy(p string) {
	if d.Lazy != nil {
		d.Lazy(p)
	}
}

func (d *verifDCS) create(path string, val any, eph bool) error {
	p := verifNorm(path)
	d.lazy(p)
	if d.Before != nil {
		d.Before("create", p)
	}
	if d.fault("create", p, true) {
		return ErrVerifDCS
	}
	if d.has(p) {
		return dcs.ErrExists
	}
	if !d.has(verifParent(p)) {
		return errors.New("zk: node does not exist")
	}
	d.put(p, verifStore(val), eph)
	d.wrote("create", p)
	return nil
}

func (d *verifDCS) wrote(op, p string) {
	d.Writes = append(d.Writes, op+" "+p)
	if !d.Quiet {
		verifnd.Event("dcs " + op + " " + p)
	}
	if d.Checkpoint != nil {
		d.Checkpoint(op, p)
	}
}

func (d *verifDCS) Create(path string, val any) error          { return d.create(path, val, false) }
func (d *verifDCS) CreateEphemeral(path string, val any) error { return d.create(path, val, true) }

func (d *verifDCS) set(path string, val any, eph bool) error {
	p := verifNorm(path)
	d.lazy(p)
	if d.Before != nil {
		d.Before("set", p)
	}
	if d.fault("set", p, true) {
		return ErrVerifDCS
	}
	if d.has(p) {
		if eph && !d.eph[p] {
			return errors.New("node exists, but not ephemeral, can't make it ephemeral")
		}
		d.nodes[p] = verifStore(val)
		d.wrote("set", p)
		return nil
	}
	// create missing parents
	var chain []string
	for q := verifParent(p); !d.has(q); q = verifParent(q) {
		chain = append(chain, q)
	}
	for i := len(chain) - 1; i >= 0; i-- {
		d.put(chain[i], struct{}{}, false)
	}
	d.put(p, verifStore(val), eph)
	d.wrote("set", p)
	return nil
}

func (d *verifDCS) Set(path string, val any) error          { return d.set(path, val, false) }
func (d *verifDCS) SetEphemeral(path string, val any) error { return d.set(path, val, true) }

func (d *verifDCS) Delete(path string) error {
	p := verifNorm(path)
	d.lazy(p)
	if d.Before != nil {
		d.Before("delete", p)
	}
	if d.fault("delete", p, true) {
		return ErrVerifDCS
	}
	if !d.has(p) {
		return nil
	}
	for q := range d.nodes {
		if strings.HasPrefix(q, p+"/") {
			return errors.New("zk: node has children")
		}
	}
	delete(d.nodes, p)
	delete(d.eph, p)
	for i, q := range d.order {
		if q == p {
			d.order = append(d.order[:i:i], d.order[i+1:]...)
			break
		}
	}
	d.wrote("delete", p)
	return nil
}

func (d *verifDCS) GetChildren(path string) ([]string, error) {
	p := verifNorm(path)
	d.lazy(p)
	if d.fault("children", p, false) {
		return nil, ErrVerifDCS
	}
	if !d.has(p) {
		return nil, dcs.ErrNotFound
	}
	var out []string
	prefix := p + "/"
	if p == "" {
		prefix = ""
	}
	for _, q := range d.order {
		if q != "" && strings.HasPrefix(q, prefix) && !strings.Contains(q[len(prefix):], "/") {
			out = append(out, q[len(prefix):])
		}
	}
	return out, nil
}

func (d *verifDCS) GetTree(path string) (any, error) { return nil, errors.New("GetTree not modelled") }

func (d *verifDCS) Get(path string, dest any) error {
	p := verifNorm(path)
	d.lazy(p)
	if d.fault("get", p, false) {
		return ErrVerifDCS
	}
	v, ok := d.nodes[p]
	if !ok {
		return dcs.ErrNotFound
	}
	if v == nil {
		return nil // JSON null: destination left unchanged
	}
	switch dst := dest.(type) {
	case *Switchover:
		if x, ok := v.(Switchover); ok {
			*dst = *(verifStore(&x).(Switchover)).ptr()
			return nil
		}
	case *Maintenance:
		if x, ok := v.(Maintenance); ok {
			*dst = x
			return nil
		}
	case *nodestate.NodeState:
		if x, ok := v.(nodestate.NodeState); ok {
			*dst = x
			return nil
		}
	case *[]string:
		if x, ok := v.([]string); ok {
			*dst = append([]string{}, x...)
			return nil
		}
	case *string:
		if x, ok := v.(string); ok {
			*dst = x
			return nil
		}
	case *bool:
		if x, ok := v.(bool); ok {
			*dst = x
			return nil
		}
	case *time.Time:
		if x, ok := v.(time.Time); ok {
			*dst = x
			return nil
		}
	case *struct{}:
		return nil
	case *mysql.ResetupStatus:
		if x, ok := v.(mysql.ResetupStatus); ok {
			*dst = x
			return nil
		}
	case *mysql.NodeConfiguration:
		if x, ok := v.(mysql.NodeConfiguration); ok {
			*dst = x
			return nil
		}
		if _, ok := v.(struct{}); ok {
			return nil // "{}"-like empty object
		}
	case *mysql.CascadeNodeConfiguration:
		if x, ok := v.(mysql.CascadeNodeConfiguration); ok {
			*dst = x
			return nil
		}
	default:
		if ok, handled := verifLoadOpt(v, dest); handled {
			if ok {
				return nil
			}
			return dcs.ErrMalformed
		}
		panic("fake dcs: destination type not modelled")
	}
	return dcs.ErrMalformed
}

func (s Switchover) ptr() *Switchover { return &s }

var _ dcs.DCS = (*verifDCS)(nil)

// ---- direct (harness-side) access, bypassing fault injection and logs ----

func (d *verifDCS) seed(path string, v any) {
	p := verifNorm(path)
	var chain []string
	for q := verifParent(p); !d.has(q); q = verifParent(q) {
		chain = append(chain, q)
	}
	for i := len(chain) - 1; i >= 0; i-- {
		d.put(chain[i], struct{}{}, false)
	}
	d.put(p, verifStore(v), false)
}

// unseed removes a node (and nothing else) behind the back of the code under test:
// an action of another process or of the operator.
func (d *verifDCS) unseed(path string) {
	p := verifNorm(path)
	if !d.has(p) {
		return
	}
	delete(d.nodes, p)
	delete(d.eph, p)
	for i, q := range d.order {
		if q == p {
			d.order = append(d.order[:i:i], d.order[i+1:]...)
			break
		}
	}
}

func (d *verifDCS) peek(path string) (any, bool) {
	v, ok := d.nodes[verifNorm(path)]
	return v, ok
}

func (d *verifDCS) activeNodes() ([]string, bool) {
	v, ok := d.peek(pathActiveNodes)
	if !ok {
		return nil, false
	}
	l, _ := v.([]string)
	return l, true
}

func (d *verifDCS) masterHost() string {
	v, _ := d.peek(pathMasterNode)
	s, _ := v.(string)
	return s
}

func (d *verifDCS) recoveryMarked(host string) bool {
	_, ok := d.peek(dcs.JoinPath(pathRecovery, host))
	return ok
}

// ---- App builder ----

func verifConfig(local string) *config.Config {
	return &config.Config{
		SemiSync:                           true,
		SemiSyncEnableLag:                  100 * 1024 * 1024,
		Failover:                           true,
		FailoverCooldown:                   time.Hour,
		FailoverDelay:                      30 * time.Second,
		InactivationDelay:                  30 * time.Second,
		CriticalDiskUsage:                  95.0,
		NotCriticalDiskUsage:               95.0,
		Hostname:                           local,
		Emergefile:                         "/emerge",
		Resetupfile:                        "/resetup",
		Maintenancefile:                    "/maintenance",
		Queries:                            map[string]string{},
		Commands:                           map[string]string{},
		DBTimeout:                          5 * time.Second,
		DBLostCheckTimeout:                 5 * time.Second,
		DBSetRoTimeout:                     30 * time.Second,
		DBSetRoForceTimeout:                30 * time.Second,
		DBStopSlaveSQLThreadTimeout:        30 * time.Second,
		TickInterval:                       5 * time.Second,
		ManagerElectionDelayAfterQuorumLoss: 30 * time.Second,
		ManagerLockAcquireDelayAfterQuorumLoss: 45 * time.Second,
		SlaveCatchUpTimeout:                30 * time.Minute,
		DisableSemiSyncReplicationOnMaintenance: true,
		ExcludeUsers:                       []string{},
		OfflineModeEnableInterval:          15 * time.Minute,
		OfflineModeEnableLag:               24 * time.Hour,
		OfflineModeDisableLag:              30 * time.Second,
		OfflineModeMaxOfflinePct:           100,
		OfflineModeAZSeparator:             "-",
		ResetupHostLag:                     25 * time.Hour,
		StreamFromReasonableLag:            5 * time.Minute,
		PriorityChoiceMaxLag:               60 * time.Second,
		RplSemiSyncMasterWaitForSlaveCount: 1,
		WaitReplicationStartTimeout:        10 * time.Second,
		ReplicationRepairCooldown:          time.Minute,
		ReplicationRepairMaxAttempts:       3,
		ExternalReplicationChannel:         "external",
		ReplMonSchemeName:                  "mysql",
		ReplMonTableName:                   "mysync_repl_mon",
		SwitchoverTimeout:                  30 * time.Minute,
		SwitchoverMaxAttempts:              60,
		OptimizationConfig: config.OptimizationConfig{
			HighReplicationMark: 120 * time.Second,
			LowReplicationMark:  60 * time.Second,
		},
	}
}

type verifWorld struct {
	app   *App
	cfg   *config.Config
	dcs   *verifDCS
	fleet *mysql.VerifFleet
	ha    []string
	casc  []string
}

// verifNewWorld builds an App over a fake fleet and a fake coordination store.
// ha / cascade hosts are registered in the coordination tree; local is the host
// this mysync instance runs on.
func verifNewWorld(cfg *config.Config, ha []string, cascade map[string]string) *verifWorld {
	d := newVerifDCS()
	var all []string
	all = append(all, ha...)
	var casc []string
	for h := range cascade {
		casc = append(casc, h)
	}
	sort.Strings(casc)
	all = append(all, casc...)
	fleet := mysql.NewVerifFleet(all)
	mysql.VerifInstall(fleet)
	verifInstallAppHooks()
	verifInstallGTID()
	d.seed(dcs.PathHANodesPrefix, struct{}{})
	for _, h := range ha {
		d.seed(dcs.JoinPath(dcs.PathHANodesPrefix, h), struct{}{})
	}
	if len(casc) > 0 {
		d.seed(dcs.PathCascadeNodesPrefix, struct{}{})
		for _, h := range casc {
			d.seed(dcs.JoinPath(dcs.PathCascadeNodesPrefix, h), mysql.CascadeNodeConfiguration{StreamFrom: cascade[h]})
		}
	}
	logger := verifLogger()
	app := &App{
		state:               stateManager,
		config:              cfg,
		logger:              logger,
		dcs:                 d,
		appDCS:              NewAppDCS(d, cfg, logger),
		t:                   NewTimings(),
		replRepairState:     make(map[string]*ReplicationRepairState),
		slaveReadPositions:  make(map[string]string),
		externalReplication: &mysql.UnimplementedExternalReplication{},
		switchHelper:        mysql.NewSwitchHelper(cfg),
		offlineModeFilter:   NewOfflineModeFilter(cfg, logger),
	}
	cl, err := mysql.NewCluster(cfg, logger, d)
	if err != nil {
		panic("verif: NewCluster failed")
	}
	app.cluster = cl
	if err := cl.UpdateHostsInfo(); err != nil {
		panic("verif: UpdateHostsInfo failed")
	}
	w := &verifWorld{app: app, cfg: cfg, dcs: d, fleet: fleet, ha: ha, casc: casc}
	verifInstallOpt(w)
	return w
}

// syncGTIDOwners publishes which transactions originate on which server UUID
// (call after setting OwnBits on the servers).
func (w *verifWorld) syncGTIDOwners() {
	verifGTIDOwn = map[uuid.UUID]uint64{}
	for _, h := range w.fleet.Hosts {
		s := w.fleet.Servers[h]
		verifGTIDOwn[mysql.VerifUUID(s.UUIDIdx)] = s.OwnBits
	}
}

// observe runs the real getClusterStateFromDB without fault injection or event noise.
func (w *verifWorld) observe() map[string]*nodestate.NodeState {
	fb, q := w.fleet.FaultBudget, w.fleet.Quiet
	w.fleet.FaultBudget, w.fleet.Quiet = 0, true
	cs := w.app.getClusterStateFromDB()
	w.fleet.FaultBudget, w.fleet.Quiet = fb, q
	return cs
}
