package app

// C16 — cascade replicas: source resolution terminates, never self, never quorum.
//
//   H_C16_best_source     findBestStreamFrom over every stream_from configuration of a
//                         bounded universe (chains, cycles, self-reference, HA targets)
//   H_C16_repair_cascade  one call of repairCascadeNode over the same configurations on a
//                         fake fleet: where the replica is re-pointed to, and when
//   H_C16_blind_from_observation  how the "replica status unknown" input of the former
//                         arises from the real observation pass with one failing query
//   H_C16_counts          cascade hosts are invisible to the quorum counters and to
//                         getDubiousHAHosts
//   H_C16_active_nodes    calcActiveNodes never lists a cascade host
//   H_C16_not_promoted    performSwitchover on a list produced by calcActiveNodes never
//                         promotes the cascade host (link to C01)
//
// Findings on the unchanged tree (see RESULTS.md): the "blind" branch of
// repairCascadeNode (replica status unknown) violates move.not-self,
// move.only-if-contained and move.target-spec.

import (
	"strings"

	nodestate "github.com/yandex/mysync/internal/app/node_state"
	"github.com/yandex/mysync/internal/mysql"
	"github.com/yandex/mysync/internal/verifnd"
)

const (
	c16Self   = "c" // the cascade replica under repair
	c16Master = "m" // the recorded master (an HA host; never a cascade host — CLI rule)
)

var c16Universe = []string{"c", "m", "x", "y", "z"}

// What the manager observed about an ancestor. "Healthy" is the code's notion of a
// usable source: ping ok ∧ online ∧ (is a master ∨ running replica with a known lag
// below stream_from_reasonable_lag). Every class but the first two breaks exactly
// one conjunct.
const (
	c16MasterLike = iota // ping ok, online, no replica status (a master)                → healthy
	c16Running           // ping ok, online, running replica, lag symbolic               → healthy iff lag < bound
	c16PingFail          // ping failed, otherwise master-like
	c16Offline           // offline_mode on, otherwise master-like
	c16Stopped           // replica whose threads are stopped; lag known and 0 (custom lag query)
	c16LagUnknown        // running replica, lag NULL
	c16Partial           // ping ok but the observation failed half-way: neither role known
)

var (
	c16AncestorClasses = []int{c16MasterLike, c16Running, c16PingFail, c16Offline, c16Stopped, c16LagUnknown, c16Partial}
	c16MasterClasses   = []int{c16MasterLike, c16PingFail, c16Offline}
)

type c16Opt struct {
	gtid          bool   // draw observed GTID sets
	mask          uint64 // GTID universe
	masterClasses []int
	symHealth     bool // ping/offline of master-like and running ancestors are symbolic bools
}

type c16Scene struct {
	n     int
	hosts []string
	topo  map[string]mysql.CascadeNodeConfiguration
	cs    map[string]*nodestate.NodeState
	class map[string]int
	obs   map[string]uint64 // observed executed set per ancestor (symbolic)

	selfShape int    // 0: replica status unknown (SlaveState nil); 1: running; 2: stopped
	cur       string // source according to the observed replica status
	sf        string // configured stream_from of the replica
	chain     []string
	expected  string // what the property says the resolved source is
	how       string // the clause that produced it
}

func c16Gtid(sc *c16Scene, h string, opt c16Opt) string {
	if !opt.gtid {
		return ""
	}
	b := verifnd.Uint64("obs." + h)
	verifnd.Assume(b&^opt.mask == 0)
	sc.obs[h] = b
	return verifnd.GTIDString(b)
}

// c16Observe draws what was observed about ancestor h and returns whether it is
// healthy. With decide=true the harness forks on the symbolic part of the answer
// (the real code forks on the same conditions), so the result is concrete.
func c16Observe(sc *c16Scene, h string, classes []int, opt c16Opt, decide bool) bool {
	class := classes[verifnd.Choose("class."+h, len(classes))]
	sc.class[h] = class
	gt := c16Gtid(sc, h, opt)
	ns := &nodestate.NodeState{PingOk: true, IsCascade: h != c16Master}
	healthy := false
	var cond bool // symbolic part
	hasCond := false
	switch class {
	case c16MasterLike, c16PingFail, c16Offline:
		ns.IsMaster = true
		ns.MasterState = &nodestate.MasterState{ExecutedGtidSet: gt}
		ns.PingOk = class != c16PingFail
		ns.IsOffline = class == c16Offline
		healthy = class == c16MasterLike
	case c16Running, c16LagUnknown, c16Stopped:
		ss := &nodestate.SlaveState{MasterHost: c16Master, ExecutedGtidSet: gt, ReplicationState: mysql.ReplicationRunning}
		switch class {
		case c16Running:
			lag := verifnd.Float("lag." + h)
			ss.ReplicationLag = &lag
			cond, hasCond = lag < 300.0, true // verifConfig: StreamFromReasonableLag = 5 min
		case c16Stopped:
			zero := 0.0
			ss.ReplicationLag = &zero
			ss.ReplicationState = mysql.ReplicationStopped
		}
		ns.SlaveState = ss
	case c16Partial:
	}
	if opt.symHealth && (class == c16MasterLike || class == c16Running) {
		ns.PingOk = verifnd.Bool("ping." + h)
		ns.IsOffline = verifnd.Bool("offline." + h)
		up := verifnd.And(ns.PingOk, verifnd.Not(ns.IsOffline))
		if hasCond {
			cond = verifnd.And(cond, up)
		} else {
			cond, hasCond = up, true
		}
	}
	sc.cs[h] = ns
	if hasCond && decide {
		if cond {
			healthy = true
		} else {
			healthy = false
		}
	}
	return healthy
}

// c16Build draws the replica's own observation, then follows the configured chain
// from the replica, drawing stream_from entries and ancestor observations on demand
// (hosts the chain never reaches keep a default observation and have no entry).
func c16Build(n int, opt c16Opt) *c16Scene {
	sc := &c16Scene{n: n, hosts: c16Universe[:n], topo: map[string]mysql.CascadeNodeConfiguration{},
		cs: map[string]*nodestate.NodeState{}, class: map[string]int{}, obs: map[string]uint64{}}
	for _, h := range sc.hosts {
		zero := 0.0
		if h == c16Master {
			sc.cs[h] = &nodestate.NodeState{PingOk: true, IsMaster: true, MasterState: &nodestate.MasterState{}}
		} else {
			sc.cs[h] = &nodestate.NodeState{PingOk: true, SlaveState: &nodestate.SlaveState{MasterHost: c16Master,
				ReplicationState: mysql.ReplicationRunning, ReplicationLag: &zero}}
		}
		sc.class[h] = -1
	}
	// the replica itself: reachable, not master-like (repairSlaveNode's precondition for the cascade branch)
	self := &nodestate.NodeState{PingOk: true, IsCascade: true, IsReadOnly: true, IsSuperReadOnly: true}
	sc.selfShape = verifnd.Choose("self.shape", 3)
	if sc.selfShape != 0 {
		sc.cur = sc.hosts[1+verifnd.Choose("self.source", n-1)]
		zero := 0.0
		// (its observed executed set stays the empty set: NodeState.String, which
		// repairCascadeNode calls for its log line, needs a printable value; the real
		// code never decides on it — it reads the replica's set afresh)
		self.SlaveState = &nodestate.SlaveState{MasterHost: sc.cur, ReplicationState: mysql.ReplicationRunning, ReplicationLag: &zero}
		if sc.selfShape == 2 {
			self.SlaveState.ReplicationState = mysql.ReplicationStopped
			self.SlaveState.ReplicationLag = nil
		}
	}
	sc.cs[c16Self] = self

	cur := c16Self
	visited := map[string]bool{c16Self: true}
	for {
		sf, entry := "", cur != c16Master
		if entry {
			opts := n + 1
			if cur != c16Self {
				opts++ // an HA host: no entry at all
			}
			k := verifnd.Choose("stream_from."+cur, opts)
			switch {
			case k < n:
				sf = sc.hosts[k]
			case k == n:
				sf = ""
			default:
				entry = false
			}
		}
		if entry {
			sc.topo[cur] = mysql.CascadeNodeConfiguration{StreamFrom: sf}
		}
		if cur == c16Self {
			sc.sf = sf
		}
		if !entry || sf == "" {
			sc.how = "master.chain-end"
			break
		}
		if visited[sf] {
			sc.how = "master.cycle"
			if sf == c16Self && cur == c16Self {
				sc.how = "master.self-reference"
			}
			break
		}
		classes := c16AncestorClasses
		if sf == c16Master {
			classes = opt.masterClasses
		}
		if cur == c16Self && sc.selfShape == 1 && sc.cur == sf {
			// already streaming from the configured source: its health does not matter
			c16Observe(sc, sf, classes, opt, false)
			sc.expected, sc.how = sf, "streaming"
			return sc
		}
		healthy := c16Observe(sc, sf, classes, opt, true)
		sc.chain = append(sc.chain, sf)
		if healthy {
			sc.expected, sc.how = sf, "ancestor"
			if len(sc.chain) == 1 {
				sc.how = "configured"
			}
			return sc
		}
		visited[sf] = true
		cur = sf
	}
	sc.expected = c16Master
	return sc
}

func c16Cascade(sc *c16Scene) (ha []string, cascade map[string]string) {
	cascade = map[string]string{}
	for _, h := range sc.hosts {
		if cnc, ok := sc.topo[h]; ok {
			cascade[h] = cnc.StreamFrom
		} else {
			ha = append(ha, h)
		}
	}
	return
}

// H_C16_best_source: the resolved source is the configured one when healthy or
// already streamed from, else the nearest healthy ancestor, else the master;
// never the replica; the walk ends within |hosts|+1 iterations.
func H_C16_best_source() {
	n := verifnd.Param("hosts", 4)
	opt := c16Opt{masterClasses: c16MasterClasses, symHealth: verifnd.Param("sym_health", 0) == 1}
	sc := c16Build(n, opt)
	ha, cascade := c16Cascade(sc)
	w := verifNewWorld(verifConfig(c16Master), ha, cascade)

	verifnd.Fact("clause", sc.how)
	verifnd.LoopLimit("(*app.App).findBestStreamFrom", n+1)
	res := w.app.findBestStreamFrom(w.app.cluster.Get(c16Self), sc.cs, c16Master, sc.topo)
	verifnd.LoopLimit("(*app.App).findBestStreamFrom", 0)

	verifnd.Assert(res != c16Self, "source.not-self")
	verifnd.Assert(res == sc.expected, "source.spec")
	verifnd.Reach("C16.src." + sc.how)
	if len(sc.chain) >= 3 {
		verifnd.Reach("C16.src.chain3")
	}
	if sc.how == "ancestor" && sc.expected != c16Master {
		verifnd.Reach("C16.src.ancestor-not-master")
	}
}

// c16Repair runs repairCascadeNode; the refusal of performChangeMaster to point a
// host at itself (a panic) is reported to the caller, any other panic propagates.
func c16Repair(w *verifWorld, sc *c16Scene) (selfPanic bool) {
	defer func() {
		if r := recover(); r != nil {
			if s, ok := r.(string); ok && strings.HasPrefix(s, "impossible to change master to itself") {
				selfPanic = true
				return
			}
			panic(r)
		}
	}()
	// the walk inside must end within |hosts|+1 iterations here too
	verifnd.LoopLimit("(*app.App).findBestStreamFrom", sc.n+1)
	defer verifnd.LoopLimit("(*app.App).findBestStreamFrom", 0)
	w.app.repairCascadeNode(w.app.cluster.Get(c16Self), sc.cs, c16Master, sc.topo)
	return false
}

// H_C16_repair_cascade: one repairCascadeNode call. Every CHANGE SOURCE issued on the
// replica names the resolved source, never the replica, and — when it moves the
// replica away from the source it replicates from — only a source whose executed set
// contains the replica's at that moment.
func H_C16_repair_cascade() {
	n := verifnd.Param("hosts", 3)
	mask := uint64(1)<<uint(verifnd.Param("gtid_bits", 3)) - 1
	mc := []int{c16MasterLike, c16Offline} // repairCluster runs only while the master answers ping
	if verifnd.Param("partial_master", 0) == 1 {
		mc = append(mc, c16Partial)
	}
	opt := c16Opt{gtid: true, mask: mask, masterClasses: mc}
	sc := c16Build(n, opt)
	ha, cascade := c16Cascade(sc)
	w := verifNewWorld(verifConfig(c16Master), ha, cascade)
	w.fleet.Havoc = verifnd.Param("havoc", 1) == 1

	// ground truth behind the observation: every other server has executed at least what was observed
	for _, h := range sc.hosts {
		if h == c16Self {
			continue
		}
		srv := w.fleet.Servers[h]
		act := verifnd.Uint64("actual." + h)
		verifnd.Assume(act&^mask == 0)
		srv.Executed = act | sc.obs[h]
		srv.Alive = sc.class[h] != c16PingFail
		srv.Offline = sc.class[h] == c16Offline
		if h != c16Master {
			srv.ReadOnly, srv.SuperRO = true, true
			if sc.class[h] != c16MasterLike && sc.class[h] != c16Offline && sc.class[h] != c16PingFail {
				srv.IsReplica, srv.Source = true, c16Master
				srv.IORunning, srv.SQLRunning = sc.class[h] != c16Stopped, sc.class[h] != c16Stopped
			}
		} else {
			srv.OwnBits = mask
		}
	}
	w.syncGTIDOwners()
	// the replica: a configured replica of truthSrc; its threads run iff truthRun
	self := w.fleet.Servers[c16Self]
	truthSrc, truthRun := sc.cur, sc.selfShape == 1
	if sc.selfShape == 0 {
		truthSrc = sc.hosts[1+verifnd.Choose("truth.source", n-1)]
		truthRun = verifnd.Choose("truth.running", 2) == 1
	}
	self.ReadOnly, self.SuperRO = true, true
	self.IsReplica, self.Source, self.IORunning, self.SQLRunning = true, truthSrc, truthRun, truthRun
	self.Executed = verifnd.Uint64("executed.c")
	verifnd.Assume(self.Executed&^mask == 0)
	self.Retrieved = self.Executed

	branch := "guarded"
	if sc.selfShape == 0 {
		branch = "blind"
	}
	replica := "stopped"
	if truthRun {
		replica = "running"
	}
	configured := "unhealthy"
	switch {
	case sc.sf == c16Self:
		configured = "self"
	case sc.sf == "":
		configured = "empty"
	case sc.how == "configured" || sc.how == "streaming":
		configured = "healthy-or-streamed"
	}
	verifnd.Fact("branch", branch)
	verifnd.Fact("replica", replica)
	verifnd.Fact("configured", configured)

	// a replica whose threads run keeps applying its source's transactions until it is
	// stopped: one more step of progress before every statement it receives
	w.fleet.Before = func(host, stmt string) {
		if host != c16Self || !w.fleet.Havoc {
			return
		}
		if src := w.fleet.Servers[self.Source]; src != nil {
			more := verifnd.Uint64("progress.c")
			can := verifnd.And(verifnd.And(self.IORunning, self.SQLRunning), src.Alive)
			self.Executed = verifnd.IteUint64(can, self.Executed|(more&src.Executed), self.Executed)
		}
	}
	seen, moved := 0, false
	w.fleet.Checkpoint = func(host, stmt string) {
		if host != c16Self || len(self.ChangedTo) == seen {
			return
		}
		tgt := self.ChangedTo[seen]
		seen++
		verifnd.Assert(tgt != c16Self, "move.not-self")
		verifnd.Assert(tgt == sc.expected, "move.target-spec")
		if t := w.fleet.Servers[tgt]; t != nil && tgt != truthSrc {
			moved = true
			contained := self.Executed&^t.Executed == 0
			if truthRun {
				verifnd.Assert(contained, "move.only-if-contained")
			} else {
				verifnd.Assert(contained, "move.only-if-contained.stopped")
			}
		}
	}

	selfPanic := c16Repair(w, sc)

	verifnd.Assert(!selfPanic, "move.not-self")
	switch {
	case selfPanic:
		verifnd.Reach("C16.repair.self-panic")
	case seen > 0:
		verifnd.Reach("C16.repair.repointed." + branch)
		if moved {
			verifnd.Reach("C16.repair.moved." + branch + "." + replica)
		}
	case len(w.fleet.Log) == 0:
		verifnd.Reach("C16.repair.untouched")
	default:
		verifnd.Reach("C16.repair.no-repoint")
		if truthRun && !self.IORunning {
			verifnd.Reach("C16.repair.stopped-and-waiting")
		}
	}
}

// ---------------------------------------------------------------------------
// cascade hosts and the quorum

var c16CountNames = []string{"m", "h1", "h2", "h3", "h4"}

// c16Cluster: master m plus n-1 further hosts, each an HA or a cascade host (by
// choice), each with an arbitrary observation: ping ok / failed (dubious or not),
// replica status unknown / running / stopped.
func c16Cluster(n int) (hosts, ha []string, cascade map[string]string, cs map[string]*nodestate.NodeState) {
	hosts = c16CountNames[:n]
	cascade = map[string]string{}
	cs = map[string]*nodestate.NodeState{}
	for i, h := range hosts {
		ns := &nodestate.NodeState{}
		ns.PingOk = verifnd.Bool("ping." + h)
		ns.PingDubious = verifnd.Bool("dubious." + h)
		if i == 0 {
			ns.IsMaster = true
			ns.MasterState = &nodestate.MasterState{}
			ha = append(ha, h)
		} else {
			if verifnd.Choose("cascade."+h, 2) == 1 {
				ns.IsCascade = true
				cascade[h] = c16Master
			} else {
				ha = append(ha, h)
			}
			switch verifnd.Choose("replica."+h, 3) {
			case 1:
				ns.SlaveState = &nodestate.SlaveState{MasterHost: c16Master, ReplicationState: mysql.ReplicationRunning}
			case 2:
				ns.SlaveState = &nodestate.SlaveState{MasterHost: c16Master, ReplicationState: mysql.ReplicationStopped}
			}
		}
		cs[h] = ns
	}
	return
}

func c16Only(cs map[string]*nodestate.NodeState, keep []string) map[string]*nodestate.NodeState {
	out := map[string]*nodestate.NodeState{}
	for _, h := range keep {
		out[h] = cs[h]
	}
	return out
}

func c16Has(l []string, h string) bool {
	for _, x := range l {
		if x == h {
			return true
		}
	}
	return false
}

// H_C16_counts: the three quorum counters and the dubious-host list give the same
// answer with and without the cascade hosts' observations — whatever those are.
func H_C16_counts() {
	n := 2 + verifnd.Choose("hosts", verifnd.Param("hosts", 4)-1)
	hosts, ha, cascade, cs := c16Cluster(n)
	if len(cascade) == 0 {
		return
	}
	csHA := c16Only(cs, ha)

	verifnd.Fact("counter", "countHANodes")
	verifnd.Assert(countHANodes(cs) == countHANodes(csHA), "cascade.not-counted")
	verifnd.Assert(countHANodes(cs) == len(ha), "cascade.not-counted")
	verifnd.Fact("counter", "countRunningHASlaves")
	verifnd.Assert(countRunningHASlaves(cs) == countRunningHASlaves(csHA), "cascade.not-counted")
	// the list may be stale and still name hosts that have since become cascade replicas
	verifnd.Fact("counter", "countAliveHASlavesWithinNodes")
	verifnd.Assert(countAliveHASlavesWithinNodes(hosts, cs) == countAliveHASlavesWithinNodes(ha, cs), "cascade.not-counted")
	verifnd.Assert(countAliveHASlavesWithinNodes(hosts, cs) == countAliveHASlavesWithinNodes(ha, csHA), "cascade.not-counted")
	verifnd.Fact("counter", "getDubiousHAHosts")
	dub := getDubiousHAHosts(cs)
	verifnd.Assert(len(dub) == len(getDubiousHAHosts(csHA)), "cascade.not-dubious")
	for h := range cascade {
		verifnd.Assert(!c16Has(dub, h), "cascade.not-dubious")
	}
	verifnd.Reach("C16.counts")
	if countRunningHASlaves(cs) > 0 {
		verifnd.Reach("C16.counts.ha-counted")
	}
	if len(dub) > 0 {
		verifnd.Reach("C16.counts.ha-dubious")
	}
}

// H_C16_active_nodes: calcActiveNodes never lists a cascade host — whatever its
// observation, its health record, the previous list (which may still name it) and
// its GTID set — while it still lists eligible HA replicas.
func H_C16_active_nodes() {
	n := 2 + verifnd.Choose("hosts", verifnd.Param("hosts", 3)-1)
	mask := uint64(1)<<uint(verifnd.Param("gtid_bits", 2)) - 1
	hosts, ha, cascade, cs := c16Cluster(n)
	if len(cascade) == 0 {
		return
	}
	// repairCluster / updateActiveNodes run only while the master answers ping
	verifnd.Assume(cs[c16Master].PingOk)
	w := verifNewWorld(verifConfig(c16Master), ha, cascade)
	m := w.fleet.Servers[c16Master]
	m.Executed = verifnd.Uint64("executed.m")
	verifnd.Assume(m.Executed&^mask == 0)
	m.OwnBits = mask
	w.syncGTIDOwners()
	dcsState := map[string]*nodestate.NodeState{}
	for _, h := range hosts {
		dcsState[h] = &nodestate.NodeState{PingOk: verifnd.Bool("health.ping." + h), IsCascade: cs[h].IsCascade}
		if ss := cs[h].SlaveState; ss != nil {
			b := verifnd.Uint64("executed." + h)
			verifnd.Assume(b&^mask == 0)
			ss.ExecutedGtidSet = verifnd.GTIDString(b)
		}
	}
	old := []string{c16Master}
	if verifnd.Choose("old-list", 2) == 1 {
		old = append([]string{}, hosts...) // stale: names every host, cascade ones included
	}
	if verifnd.Choose("recovery", 2) == 1 {
		w.dcs.seed(pathRecovery+"/"+hosts[n-1], struct{}{})
	}

	active, err := w.app.calcActiveNodes(cs, dcsState, old, c16Master)
	if err != nil {
		return
	}
	for h := range cascade {
		verifnd.Assert(!c16Has(active, h), "cascade.not-listed")
	}
	verifnd.Assert(countAliveHASlavesWithinNodes(active, cs) == countAliveHASlavesWithinNodes(active, c16Only(cs, ha)), "cascade.not-counted")
	verifnd.Reach("C16.active")
	if len(active) > 1 {
		verifnd.Reach("C16.active.ha-listed")
	}
}

// H_C16_not_promoted: the composition with C01. The list comes from the real
// calcActiveNodes over a converged cluster with a cascade replica that is as
// eligible as a replica can be; performSwitchover is then asked to promote (a) the
// cascade host by name, (b) whoever is best after a master failure. The cascade host
// is never made writable, never recorded as master.
func H_C16_not_promoted() {
	cfg := verifConfig(c16Master)
	w := verifNewWorld(cfg, []string{c16Master, "h1"}, map[string]string{c16Self: c16Master})
	verifHealthy(w, c16Master)
	// everybody has executed everything (the fake fleet makes no replication progress on
	// its own, so a lagging HA replica could never catch up); catch-up is C01's subject
	w.fleet.Servers[c16Master].Executed = 7
	w.fleet.Servers[c16Self].Executed = 7
	w.fleet.Servers["h1"].Executed = 7
	w.fleet.Servers[c16Self].SSSlave = false
	w.syncGTIDOwners()
	verifPublishHealth(w)
	cs := w.observe()
	active, err := w.app.calcActiveNodes(cs, cs, []string{c16Master, "h1", c16Self}, c16Master)
	verifnd.Assert(err == nil, "promote.setup")
	verifnd.Assert(!c16Has(active, c16Self), "cascade.not-listed")
	verifnd.Assert(c16Has(active, "h1"), "promote.setup")

	sw := &Switchover{InitiatedBy: "verif", InitiatedAt: verifnd.Now(), StartedBy: c16Master, StartedAt: verifnd.Now(), RunCount: 1}
	kind := verifnd.Choose("request", verifnd.Param("requests", 4))
	switch kind {
	case 0: // manual switchover to the cascade host
		sw.To, sw.Cause, sw.MasterTransition = c16Self, CauseManual, SwitchoverTransition
	case 1: // switch away from the master (transition unset, as when issued by a worker:
		// the optimisation phase, subject of C19, is skipped)
		sw.From, sw.Cause = c16Master, CauseManual
	case 3: // neither From nor To: the most recent listed host wins
		sw.Cause = CauseManual
	case 2: // failover after the master died
		sw.From, sw.Cause, sw.MasterTransition = c16Master, CauseAuto, FailoverTransition
		w.fleet.Servers[c16Master].Alive = false
		cs = w.observe()
	}
	w.dcs.seed(pathCurrentSwitch, sw)
	w.fleet.Checkpoint = func(host, stmt string) {
		if host == c16Self {
			verifnd.Assert(w.fleet.Servers[c16Self].ReadOnly, "cascade.not-promoted")
		}
	}
	w.dcs.Checkpoint = func(op, path string) {
		verifnd.Assert(w.dcs.masterHost() != c16Self, "cascade.not-promoted")
	}
	err = w.app.performSwitchover(cs, active, sw, c16Master)
	verifnd.Assert(w.dcs.masterHost() != c16Self, "cascade.not-promoted")
	verifnd.Assert(w.fleet.Servers[c16Self].ReadOnly, "cascade.not-promoted")
	switch {
	case kind == 0:
		verifnd.Assert(err != nil, "cascade.not-promoted")
		verifnd.Reach("C16.promote.refused")
	case err == nil:
		verifnd.Reach("C16.promote.ha-promoted")
	default:
		verifnd.Reach("C16.promote.failed")
	}
}

// H_C16_blind_from_observation: where the "replica status unknown" observation that
// H_C16_repair_cascade takes as an input comes from. A converged cluster: master m,
// HA replica x, cascade replica c configured to stream from x but currently streaming
// from m (x had been away). The manager's real observation pass (getClusterStateFromDB)
// runs with at most `faults` failing queries (deadline exceeded), then the real
// repairSlaveNode is applied to c. Same oracle as H_C16_repair_cascade.
func H_C16_blind_from_observation() {
	mask := uint64(1)<<uint(verifnd.Param("gtid_bits", 3)) - 1
	w := verifNewWorld(verifConfig(c16Master), []string{c16Master, "x"}, map[string]string{c16Self: "x"})
	verifHealthy(w, c16Master)
	self, x, m := w.fleet.Servers[c16Self], w.fleet.Servers["x"], w.fleet.Servers[c16Master]
	self.SSSlave = false
	// m and c have executed everything (concrete: NodeState.String, called by
	// repairCascadeNode for its log line, must be able to print c's set); x any subset
	m.Executed, self.Executed, self.Retrieved = mask, mask, mask
	x.Executed = verifnd.Uint64("executed.x")
	verifnd.Assume(x.Executed&^mask == 0)
	x.Retrieved = x.Executed
	m.OwnBits = mask
	w.syncGTIDOwners()

	w.fleet.FaultBudget, w.fleet.FaultKinds = verifnd.Param("faults", 1), 1
	cs := w.app.getClusterStateFromDB()
	w.fleet.FaultBudget = 0
	st := cs[c16Self]
	// the manager repairs c as a replica only if it answers ping and does not look like a master
	if !cs[c16Master].PingOk || !st.PingOk || st.IsMaster {
		return
	}
	branch := "guarded"
	if st.SlaveState == nil {
		branch = "blind"
		verifnd.Reach("C16.observation.status-unknown")
	}
	verifnd.Fact("branch", branch)
	verifnd.Fact("replica", "running")
	seen := 0
	w.fleet.Checkpoint = func(host, stmt string) {
		if host != c16Self || len(self.ChangedTo) == seen {
			return
		}
		tgt := self.ChangedTo[seen]
		seen++
		verifnd.Assert(tgt != c16Self, "move.not-self")
		if t := w.fleet.Servers[tgt]; t != nil && tgt != c16Master {
			verifnd.Assert(self.Executed&^t.Executed == 0, "move.only-if-contained")
			verifnd.Reach("C16.observation.moved." + branch)
		}
	}
	w.app.repairSlaveNode(w.app.cluster.Get(c16Self), cs, c16Master)
	if seen == 0 {
		verifnd.Reach("C16.observation.not-moved." + branch)
	}
}
