package app

// C07 — a switchover is resumable after a manager crash at any point.
// Bounded two-manager history: manager #1 (on host r2) runs one full iteration of the
// real stateManager with a pending request and DIES right before its k-th
// environment call (every mutating MySQL statement and every coordination write is
// a crash point; k is a decision, so every crash point on every path is covered).
// Then a NEW daemon instance on host r1 (fresh timers, fresh registry) becomes
// manager and runs iterations of the real stateManager until the cluster is
// quiescent (bounded by `rounds`). Health records are refreshed from the ground
// truth between iterations (the other hosts' health checkers keep running).
//
// GTIDs: the old master's executed set and what each replica retrieved / executed
// before the request are symbolic bit patterns under the invariant of a semi-sync
// cluster; A = the transactions some replica had received (acknowledged, w = 1).

import (
	"github.com/yandex/mysync/internal/config"
	"github.com/yandex/mysync/internal/mysql"
	"github.com/yandex/mysync/internal/verifnd"

	nodestate "github.com/yandex/mysync/internal/app/node_state"
)

type verifCrash struct{}

// verifNewAppOn: another daemon instance (own config/registry/timers) over the same fleet and store.
func verifNewAppOn(w *verifWorld, local string) *App {
	cfg := *w.cfg
	cfg.Hostname = local
	logger := verifLogger()
	app := &App{
		state:               stateCandidate,
		config:              &cfg,
		logger:              logger,
		dcs:                 w.dcs,
		appDCS:              NewAppDCS(w.dcs, &cfg, logger),
		t:                   NewTimings(),
		replRepairState:     make(map[string]*ReplicationRepairState),
		slaveReadPositions:  make(map[string]string),
		externalReplication: &mysql.UnimplementedExternalReplication{},
		switchHelper:        mysql.NewSwitchHelper(&cfg),
		offlineModeFilter:   NewOfflineModeFilter(&cfg, logger),
	}
	cl, err := mysql.NewCluster(&cfg, logger, w.dcs)
	if err != nil {
		panic("verif: NewCluster failed")
	}
	app.cluster = cl
	_ = cl.UpdateHostsInfo()
	app.initializeOptimizationModule()
	return app
}

var _ = config.Config{}

func H_C07_crash_resume() {
	ha := []string{"m", "r1", "r2"}
	cfg := verifConfig("r2")
	// semi-synchronous (w = 1) or asynchronous cluster
	cfg.SemiSync = verifnd.Choose("cfg.semisync", verifnd.Param("modes", 2)) == 0
	cfg.FailoverDelay = 0
	cfg.FailoverCooldown = 0
	cfg.InactivationDelay = 0
	verifnd.ConcreteClockStep = 1_000_000
	verifnd.MaxSleeps = verifnd.Param("polls", 2)
	w := verifNewWorld(cfg, ha, nil)
	verifHealthy(w, "m")

	// ---- GTIDs of a semi-sync cluster: replicas hold subsets of the master's set ----
	bits := uint64(1)<<uint(verifnd.Param("gtid_bits", 3)) - 1
	ms := w.fleet.Servers["m"]
	// transaction universe: m originates t0..t19 (the low gtid_bits of them exist before the
	// request, the rest are client commits during the history), r1 t20..t39, r2 t40..t59
	ms.OwnBits = 1<<20 - 1
	w.fleet.Servers["r1"].OwnBits = (1<<20 - 1) << 20
	w.fleet.Servers["r2"].OwnBits = (1<<20 - 1) << 40
	if !cfg.SemiSync {
		for _, h := range ha {
			s := w.fleet.Servers[h]
			s.SSMaster, s.SSSlave, s.WaitCount = false, false, 0
		}
	}
	ms.Executed = 1 | (uint64(verifnd.Byte("gtid.exec.m")) & bits)
	acked := uint64(1)
	for _, h := range ha[1:] {
		s := w.fleet.Servers[h]
		s.Retrieved = (uint64(verifnd.Byte("gtid.retr."+h)) & ms.Executed) | 1
		s.Executed = (uint64(verifnd.Byte("gtid.exec."+h)) & s.Retrieved) | 1
		acked |= s.Retrieved
	}
	if cfg.SemiSync {
		// every committed transaction was acknowledged by at least one replica (w = 1)
		verifnd.Assume(ms.Executed&^acked == 0)
	}
	// replicas of one source receive its binlog in order: the master's set and every retrieved set
	// are prefixes t0..tk of the commit order (so they are totally ordered by inclusion — no split brain)
	verifnd.Assume((ms.Executed+1)&ms.Executed == 0)
	for _, h := range ha[1:] {
		r := w.fleet.Servers[h].Retrieved
		verifnd.Assume((r+1)&r == 0)
	}
	w.syncGTIDOwners()
	w.fleet.Eager = true // fair environment: replication makes progress whenever its threads run

	// ---- the request ----
	kind := verifnd.Choose("request", verifnd.Param("requests", 3))
	sw := &Switchover{InitiatedBy: "op", InitiatedAt: verifnd.Now()}
	switch kind {
	case 0: // automatic failover, the master has died
		ms.Alive = false
		sw.From, sw.Cause, sw.MasterTransition = "m", CauseAuto, FailoverTransition
	case 1: // manual switchover away from the (alive) master
		sw.From, sw.Cause, sw.MasterTransition = "m", CauseManual, SwitchoverTransition
	case 2: // manual switchover to r1
		sw.To, sw.Cause, sw.MasterTransition = "r1", CauseManual, SwitchoverTransition
	}
	if !cfg.SemiSync && kind != 0 {
		// asynchronous cluster with a live master: everything it committed was acknowledged to
		// its clients and a switchover (unlike a failover) must keep it
		acked |= ms.Executed
	}
	w.dcs.seed(pathCurrentSwitch, sw)
	verifPublishHealth(w)

	// ---- clients ----
	// client.load = 1: at every environment call of either manager every reachable writable
	// server commits one more transaction of its own (up to 17-20 per server). It is
	// acknowledged to the client at once on a server without semi-sync, and on a semi-sync
	// master only when a connected semi-sync replica has received it.
	load := verifnd.Choose("client.load", verifnd.Param("loads", 2)) == 1
	next := map[string]uint{"m": uint(verifnd.Param("gtid_bits", 3)), "r1": 20, "r2": 40}
	last := map[string]uint{"m": 20, "r1": 40, "r2": 60}
	client := func() {
		if !load {
			return
		}
		for _, h := range ha {
			s := w.fleet.Servers[h]
			if !s.Alive || s.ReadOnly || s.Offline || next[h] >= last[h] {
				continue
			}
			t := uint64(1) << next[h]
			next[h]++
			s.Executed |= t
			if !s.SSMaster || s.WaitCount == 0 {
				acked |= t
				verifnd.Reach("C07.client.commit.async")
				continue
			}
			got := false
			for _, rh := range ha {
				r := w.fleet.Servers[rh]
				if rh != h && r.Alive && r.IsReplica && r.Source == h && r.IORunning && r.SSSlave {
					r.Retrieved |= t
					got = true
				}
			}
			if got {
				acked |= t
				verifnd.Reach("C07.client.commit.acked")
			} else {
				s.WaitingAck = true
				verifnd.Reach("C07.client.commit.waiting")
			}
		}
	}
	VerifHook_App_optimizationPhase = func(app *App, activeNodes []string, switchover *Switchover, oldMaster string, clusterState map[string]*nodestate.NodeState) error {
		return nil
	}

	// ---- manager #1 dies right before its k-th environment call ----
	crashAt := verifnd.Choose("crash.at", verifnd.Param("max_calls", 60)+1) // 0 = no crash
	calls := 0
	crashed := false
	tick := func() {
		client()
		calls++
		if crashAt != 0 && calls == crashAt {
			crashed = true
			panic(verifCrash{})
		}
	}
	w.fleet.Before = func(host, stmt string) { tick() }
	w.dcs.Before = func(op, path string) { tick() }
	func() {
		defer func() {
			if r := recover(); r != nil {
				if _, ok := r.(verifCrash); !ok {
					panic(r)
				}
			}
		}()
		w.app.stateManager()
	}()
	w.fleet.Before = func(host, stmt string) { client() }
	w.dcs.Before = func(op, path string) { client() }
	if crashAt != 0 && !crashed {
		// fewer environment calls than the chosen crash point on this path: covered by crash.at = 0
		verifnd.Assume(false)
	}
	if crashed {
		verifnd.Reach("C07.crashed")
		verifnd.Fact("crash_before_call", itoa(crashAt))
	}

	// ---- the next manager (new daemon instance on r1) ----
	app2 := verifNewAppOn(w, "r1")
	rounds := verifnd.Param("rounds", 6)
	quiet := false
	for i := 0; i < rounds && !quiet; i++ {
		cs := app2.getClusterStateFromDB()
		for h, ns := range cs {
			w.dcs.seed("health/"+h, ns)
		}
		n0, m0 := len(w.fleet.Log), w.dcs.masterHost()
		st := app2.stateManager()
		verifnd.Assert(st == stateManager, "resume.stays-manager")
		_, pending := w.dcs.peek(pathCurrentSwitch)
		// quiescent: no request pending, no statement sent to any server, recorded master unchanged
		// (the active list is re-published every iteration even when unchanged)
		quiet = !pending && len(w.fleet.Log) == n0 && w.dcs.masterHost() == m0
	}
	if !quiet {
		verifnd.Reach("C07.not-quiescent")
	}
	w.fleet.Before, w.dcs.Before = nil, nil
	if load {
		verifnd.Fact("client_load", "yes")
	}
	if !cfg.SemiSync {
		verifnd.Fact("semisync", "off")
	}
	verifnd.Assert(quiet, "resume.progress")
	if !quiet {
		return
	}
	verifnd.Reach("C07.quiescent")

	// ---- outcome ----
	_, pending := w.dcs.peek(pathCurrentSwitch)
	verifnd.Assert(!pending, "resume.request-terminal")
	master := w.dcs.masterHost()
	writable := 0
	for _, h := range ha {
		s := w.fleet.Servers[h]
		if !s.Alive {
			continue
		}
		if !s.ReadOnly {
			writable++
			verifnd.Assert(h == master, "resume.outcome.writable-is-recorded-master")
		} else if h != master {
			// reachable HA replicas are read-only and follow the recorded master,
			// unless they are kept out for recovery (marked) — then they must at least be read-only
			if !w.dcs.recoveryMarked(h) {
				verifnd.Assert(s.IsReplica && s.Source == master, "resume.outcome.replicas-follow")
			}
		}
	}
	verifnd.Assert(writable == 1, "resume.outcome.exactly-one-writable")
	mst := w.fleet.Servers[master]
	if mst != nil {
		verifnd.Assert(acked&^mst.Executed == 0, "resume.outcome.no-acknowledged-loss")
		if master != "m" {
			verifnd.Reach("C07.master-moved")
		} else {
			verifnd.Reach("C07.master-kept")
		}
	}
}

func itoa(n int) string {
	if n == 0 {
		return "0"
	}
	s := ""
	for n > 0 {
		s = string(rune('0'+n%10)) + s
		n /= 10
	}
	return s
}
