package app

// C07 — a switchover is resumable after a manager crash at any point.
// Bounded two-manager history: manager #1 (on host r2) runs one full iteration of the
// real stateManager with a pending request and DIES right before its k-th
// environment call (every mutating MySQL statement and every coordination write is
// a crash point; k is a decision, so every crash point on every path is covered).
// Then a NEW daemon instance on host r1 (fresh timers, fresh registry) becomes
// manager and runs iterations of the real stateManager until the cluster is
// quiescent (bounded by `rounds`). Health records are refreshed from the ground
// truth between iterations (the other hosts' health checkers keep running).
//
// GTIDs: the old master's executed set and what each replica retrieved / executed
// before the request are symbolic bit patterns under the invariant of a semi-sync
// cluster; A = the transactions some replica had received (acknowledged, w = 1).

import (
	"time"

	"github.com/yandex/mysync/internal/config"
	"github.com/yandex/mysync/internal/mysql/gtids"
	"github.com/yandex/mysync/internal/mysql"
	"github.com/yandex/mysync/internal/verifnd"

	nodestate "github.com/yandex/mysync/internal/app/node_state"
)

type verifCrash struct{}

// verifDCSView: one daemon's handle on the shared store; a deposed daemon is refused the lock.
type verifDCSView struct {
	*verifDCS
	deposed *bool
}

func (v *verifDCSView) AcquireLock(path string) bool {
	if *v.deposed {
		verifnd.Event("lock refused (deposed)")
		return false
	}
	return v.verifDCS.AcquireLock(path)
}

// verifNewAppOn: another daemon instance (own config/registry/timers) over the same fleet and store.
func verifNewAppOn(w *verifWorld, local string) *App {
	cfg := *w.cfg
	cfg.Hostname = local
	logger := verifLogger()
	app := &App{
		state:               stateCandidate,
		config:              &cfg,
		logger:              logger,
		dcs:                 w.dcs,
		appDCS:              NewAppDCS(w.dcs, &cfg, logger),
		t:                   NewTimings(),
		replRepairState:     make(map[string]*ReplicationRepairState),
		slaveReadPositions:  make(map[string]string),
		externalReplication: &mysql.UnimplementedExternalReplication{},
		switchHelper:        mysql.NewSwitchHelper(&cfg),
		offlineModeFilter:   NewOfflineModeFilter(&cfg, logger),
	}
	cl, err := mysql.NewCluster(&cfg, logger, w.dcs)
	if err != nil {
		panic("verif: NewCluster failed")
	}
	app.cluster = cl
	_ = cl.UpdateHostsInfo()
	app.initializeOptimizationModule()
	return app
}

var _ = config.Config{}

func H_C07_crash_resume() {
	ha := []string{"m", "r1", "r2"}
	span := uint(20) // transactions each server may originate
	if verifnd.Param("hosts", 3) == 4 {
		ha = append(ha, "r3")
		span = 15
	}
	cfg := verifConfig("r2")
	// semi-synchronous (w = 1) or asynchronous cluster
	cfg.SemiSync = verifnd.Choose("cfg.semisync", verifnd.Param("modes", 2)) == 0
	cfg.FailoverDelay = 0
	cfg.FailoverCooldown = 0
	cfg.InactivationDelay = 0
	verifnd.ConcreteClockStep = 1_000_000
	verifnd.MaxSleeps = verifnd.Param("polls", 2)
	w := verifNewWorld(cfg, ha, nil)
	verifHealthy(w, "m")

	// ---- GTIDs of a semi-sync cluster: replicas hold subsets of the master's set ----
	bits := uint64(1)<<uint(verifnd.Param("gtid_bits", 3)) - 1
	ms := w.fleet.Servers["m"]
	// transaction universe: every server originates `span` transactions (20 with 3 hosts, 15 with 4);
	// the low gtid_bits of the master's exist before the request, the rest are client commits
	for i, h := range ha {
		w.fleet.Servers[h].OwnBits = (uint64(1)<<span - 1) << (uint(i) * span)
	}
	if !cfg.SemiSync {
		for _, h := range ha {
			s := w.fleet.Servers[h]
			s.SSMaster, s.SSSlave, s.WaitCount = false, false, 0
		}
	}
	ms.Executed = 1 | (uint64(verifnd.Byte("gtid.exec.m")) & bits)
	acked := uint64(1)
	for _, h := range ha[1:] {
		s := w.fleet.Servers[h]
		s.Retrieved = (uint64(verifnd.Byte("gtid.retr."+h)) & ms.Executed) | 1
		s.Executed = (uint64(verifnd.Byte("gtid.exec."+h)) & s.Retrieved) | 1
		acked |= s.Retrieved
	}
	if cfg.SemiSync {
		// every committed transaction was acknowledged by at least one replica (w = 1)
		verifnd.Assume(ms.Executed&^acked == 0)
	}
	// replicas of one source receive its binlog in order: the master's set and every retrieved set
	// are prefixes t0..tk of the commit order (so they are totally ordered by inclusion — no split brain)
	verifnd.Assume((ms.Executed+1)&ms.Executed == 0)
	for _, h := range ha[1:] {
		r := w.fleet.Servers[h].Retrieved
		verifnd.Assume((r+1)&r == 0)
	}
	w.syncGTIDOwners()
	w.fleet.Eager = true // fair environment: replication makes progress whenever its threads run

	// ---- the request ----
	kind := verifnd.Choose("request", verifnd.Param("requests", 3))
	sw := &Switchover{InitiatedBy: "op", InitiatedAt: verifnd.Now()}
	switch kind {
	case 0: // automatic failover, the master has died
		ms.Alive = false
		sw.From, sw.Cause, sw.MasterTransition = "m", CauseAuto, FailoverTransition
	case 1: // manual switchover away from the (alive) master
		sw.From, sw.Cause, sw.MasterTransition = "m", CauseManual, SwitchoverTransition
	case 2: // manual switchover to r1
		sw.To, sw.Cause, sw.MasterTransition = "r1", CauseManual, SwitchoverTransition
	}
	if !cfg.SemiSync && kind != 0 {
		// asynchronous cluster with a live master: everything it committed was acknowledged to
		// its clients and a switchover (unlike a failover) must keep it
		acked |= ms.Executed
	}
	w.dcs.seed(pathCurrentSwitch, sw)
	verifPublishHealth(w)

	// ---- clients ----
	// client.load = 1: at every environment call of either manager every reachable writable
	// server commits one more transaction of its own after every change of the servers' configuration (up to 17-20 per server; a path that needs more is cut). It is
	// acknowledged to the client at once on a server without semi-sync, and on a semi-sync
	// master only when a connected semi-sync replica has received it.
	load := verifnd.Choose("client.load", verifnd.Param("loads", 2)) == 1
	next, last := map[string]uint{}, map[string]uint{}
	for i, h := range ha {
		next[h], last[h] = uint(i)*span, uint(i+1)*span
	}
	next["m"] = uint(verifnd.Param("gtid_bits", 3))
	lastSig := ""
	client := func() {
		if !load {
			return
		}
		// (commits between two changes of the servers' configuration are equivalent for what can be
		// lost, so the clients commit once after every change: writability, offline mode, replication
		// source and threads, semi-sync settings)
		sig := ""
		for _, h := range ha {
			s := w.fleet.Servers[h]
			sig += h + ":" + yn(s.Alive) + yn(s.ReadOnly) + yn(s.Offline) + yn(s.IsReplica) + s.Source + yn(s.IORunning) + yn(s.SQLRunning) + yn(s.SSMaster) + yn(s.SSSlave) + itoa(s.WaitCount) + ";"
		}
		if sig == lastSig {
			return
		}
		lastSig = sig
		for _, h := range ha {
			s := w.fleet.Servers[h]
			if !s.Alive || s.ReadOnly || s.Offline {
				continue
			}
			if next[h] >= last[h] {
				verifnd.Reach("C07.client.budget-exhausted")
				verifnd.Assume(false) // more commits than the transaction universe holds: outside the bound
			}
			t := uint64(1) << next[h]
			next[h]++
			s.Executed |= t
			if !s.SSMaster || s.WaitCount == 0 {
				acked |= t
				verifnd.Reach("C07.client.commit.async")
				continue
			}
			got := false
			for _, rh := range ha {
				r := w.fleet.Servers[rh]
				if rh != h && r.Alive && r.IsReplica && r.Source == h && r.IORunning && r.SSSlave {
					r.Retrieved |= t
					got = true
				}
			}
			if got {
				acked |= t
				verifnd.Reach("C07.client.commit.acked")
			} else {
				s.WaitingAck = true
				verifnd.Reach("C07.client.commit.waiting")
			}
		}
	}
	VerifHook_App_optimizationPhase = func(app *App, activeNodes []string, switchover *Switchover, oldMaster string, clusterState map[string]*nodestate.NodeState) error {
		return nil
	}

	// ---- the next manager (new daemon instance on r1) ----
	// With crashes = 2 the successor may die too, right before its k-th environment call (decision
	// crash2.at, counted over all its iterations); a third daemon instance (on r2 again: the
	// restarted first host) then takes over.
	var app2 *App
	rounds := verifnd.Param("rounds", 6)
	crash2At, calls2, crashed2 := 0, 0, false
	if verifnd.Param("crashes", 1) >= 2 {
		crash2At = verifnd.Choose("crash2.at", verifnd.Param("max_calls2", 40)+1)
	}
	succHost := "r1"
	successor := func() bool {
		if app2 == nil {
			app2 = verifNewAppOn(w, succHost)
		}
		quiet := false
		for i := 0; i < rounds && !quiet; i++ {
			cs := app2.getClusterStateFromDB()
			for h, ns := range cs {
				w.dcs.seed("health/"+h, ns)
			}
			n0, m0 := len(w.fleet.Log), w.dcs.masterHost()
			_, pending0 := w.dcs.peek(pathCurrentSwitch)
			var st appState
			died := false
			if crash2At != 0 && !crashed2 {
				b1, b2 := w.fleet.Before, w.dcs.Before
				tick2 := func() {
					calls2++
					if calls2 == crash2At {
						crashed2 = true
						panic(verifCrash{})
					}
				}
				w.fleet.Before = func(host, stmt string) { b1(host, stmt); tick2() }
				w.dcs.Before = func(op, path string) { b2(op, path); tick2() }
				func() {
					defer func() {
						if r := recover(); r != nil {
							if _, ok := r.(verifCrash); !ok {
								panic(r)
							}
							died = true
						}
					}()
					st = app2.stateManager()
				}()
				w.fleet.Before, w.dcs.Before = b1, b2
			} else {
				st = app2.stateManager()
			}
			if died {
				verifnd.Reach("C07.successor-crashed")
				verifnd.Fact("successor_crash_before_call", itoa(crash2At))
				succHost = "r2"
				app2 = verifNewAppOn(w, succHost)
				continue
			}
			verifnd.Assert(st == stateManager, "resume.stays-manager")
			_, pending := w.dcs.peek(pathCurrentSwitch)
			// quiescent: a whole iteration with no request pending before or after it, no statement sent to
			// any server and the recorded master unchanged (the active list is re-published every
			// iteration even when unchanged)
			quiet = !pending0 && !pending && len(w.fleet.Log) == n0 && w.dcs.masterHost() == m0
		}
		return quiet
	}

	// ---- how manager #1 fails ----
	// failure 0: the process dies right before its k-th environment call (k = crash.at; 0 = it survives the iteration)
	// failure 1: it loses the manager lock while it is sleeping in one of its wait loops (time passes there:
	//            its session expires, the successor takes over and runs to quiescence), then wakes up and goes on
	failure := verifnd.Choose("failure", 1+verifnd.Param("depose", 0))
	crashAt := 0
	if failure == 0 {
		crashAt = verifnd.Choose("crash.at", verifnd.Param("max_calls", 60)+1)
	}
	calls := 0
	crashed, deposed := false, false
	tick := func() {
		client()
		calls++
		if crashAt != 0 && calls == crashAt {
			crashed = true
			panic(verifCrash{})
		}
	}
	w.fleet.Before = func(host, stmt string) { tick() }
	w.dcs.Before = func(op, path string) { tick() }
	if failure == 1 {
		w.app.dcs = &verifDCSView{verifDCS: w.dcs, deposed: &deposed}
		// relay logs take time to apply: nothing is applied before manager #1 has slept n times
		w.fleet.ApplyAfterSleeps = verifnd.Choose("env.apply-after-sleeps", 1+verifnd.Param("slow", 2))
		inWait := 0
		var spy func(app *App, node *mysql.Node, gtidset gtids.GTIDSet, timeout time.Duration, sleep time.Duration) (bool, error)
		spy = func(app *App, node *mysql.Node, gtidset gtids.GTIDSet, timeout time.Duration, sleep time.Duration) (bool, error) {
			VerifHook_App_waitForCatchUp = nil
			if app == w.app {
				inWait++
			}
			r, err := app.waitForCatchUp(node, gtidset, timeout, sleep)
			if app == w.app {
				inWait--
			}
			VerifHook_App_waitForCatchUp = spy
			return r, err
		}
		VerifHook_App_waitForCatchUp = spy
		// time passes while manager #1 sleeps and while a statement of its catch-up wait is in flight
		depose := func(where string) {
			if deposed || inWait == 0 || verifnd.Choose("deposed."+where, 2) == 0 {
				return
			}
			deposed = true
			verifnd.Reach("C07.deposed")
			verifnd.Fact("deposed", where)
			verifnd.Event("manager #1 deposed: " + where)
			if verifnd.Choose("deposed.long-pause", 2) == 1 {
				// ... and stays suspended for longer than the switchover timeout
				verifnd.Sleep(cfg.SwitchoverTimeout + time.Second)
			}
			b1, b2, b3 := w.fleet.Before, w.dcs.Before, w.fleet.OnCall
			w.fleet.Before = func(host, stmt string) { client() }
			w.dcs.Before = func(op, path string) { client() }
			w.fleet.OnCall = nil
			successor()
			w.fleet.Before, w.dcs.Before, w.fleet.OnCall = b1, b2, b3
			verifnd.Event("manager #1 goes on")
		}
		verifnd.OnSleep = func() { depose("while-sleeping") }
		w.fleet.OnCall = func(host, stmt string) { depose("during-a-statement-of-the-wait") }
	}
	func() {
		defer func() {
			if r := recover(); r != nil {
				if _, ok := r.(verifCrash); !ok {
					panic(r)
				}
			}
		}()
		w.app.stateManager()
	}()
	verifnd.OnSleep, w.fleet.OnCall, VerifHook_App_waitForCatchUp = nil, nil, nil
	w.fleet.Before = func(host, stmt string) { client() }
	w.dcs.Before = func(op, path string) { client() }
	if crashAt != 0 && !crashed {
		// fewer environment calls than the chosen crash point on this path: covered by crash.at = 0
		verifnd.Assume(false)
	}
	if failure == 1 && !deposed {
		// never slept, or never deposed: covered by failure 0 with crash.at = 0
		verifnd.Assume(false)
	}
	if crashed {
		verifnd.Reach("C07.crashed")
		verifnd.Fact("crash_before_call", itoa(crashAt))
	}

	quiet := successor()
	if crash2At != 0 && !crashed2 {
		verifnd.Assume(false) // fewer environment calls than the chosen point: covered by crash2.at = 0
	}
	if !quiet {
		verifnd.Reach("C07.not-quiescent")
	}
	w.fleet.Before, w.dcs.Before = nil, nil
	if load {
		verifnd.Fact("client_load", "yes")
	}
	if !cfg.SemiSync {
		verifnd.Fact("semisync", "off")
	}
	verifnd.Assert(quiet, "resume.progress")
	if !quiet {
		return
	}
	verifnd.Reach("C07.quiescent")

	// ---- outcome ----
	_, pending := w.dcs.peek(pathCurrentSwitch)
	verifnd.Assert(!pending, "resume.request-terminal")
	master := w.dcs.masterHost()
	writable := 0
	for _, h := range ha {
		s := w.fleet.Servers[h]
		if !s.Alive {
			continue
		}
		if !s.ReadOnly {
			writable++
			verifnd.Assert(h == master, "resume.outcome.writable-is-recorded-master")
		} else if h != master {
			// reachable HA replicas are read-only and follow the recorded master,
			// unless they are kept out for recovery (marked) — then they must at least be read-only
			if !w.dcs.recoveryMarked(h) {
				verifnd.Assert(s.IsReplica && s.Source == master, "resume.outcome.replicas-follow")
			}
		}
	}
	verifnd.Assert(writable == 1, "resume.outcome.exactly-one-writable")
	mst := w.fleet.Servers[master]
	if mst != nil {
		verifnd.Assert(acked&^mst.Executed == 0, "resume.outcome.no-acknowledged-loss")
		if master != "m" {
			verifnd.Reach("C07.master-moved")
		} else {
			verifnd.Reach("C07.master-kept")
		}
	}
}

func yn(b bool) string {
	if b {
		return "1"
	}
	return "0"
}

func itoa(n int) string {
	if n == 0 {
		return "0"
	}
	s := ""
	for n > 0 {
		s = string(rune('0'+n%10)) + s
		n /= 10
	}
	return s
}

// H_C07_two_crashes: the same history with a second failure — the successor dies as well, at any
// of its environment calls, and a third daemon instance finishes.
func H_C07_two_crashes() { H_C07_crash_resume() }
