package app

// C18 — disk-space guard: read-only at critical usage, hysteresis on return.

import (
	"strings"

	nodestate "github.com/yandex/mysync/internal/app/node_state"
	"github.com/yandex/mysync/internal/mysql"
	"github.com/yandex/mysync/internal/verifnd"
)

// H_C18_usage: DiskState.Usage over all uint64 pairs: never NaN (the contract the
// decision harness assumes), non-negative, 0 for an unknown total, 100 for used > total.
func H_C18_usage() {
	used := verifnd.Uint64("used")
	total := verifnd.Uint64("total")
	u := nodestate.DiskState{Used: used, Total: total}.Usage()
	// (100*float64(used)/float64(total) can exceed 100 by a rounding error for used
	// slightly below a huge total — found by this check and harmless; the decision
	// harness therefore assumes nothing about the range, only non-NaN.)
	verifnd.Assert(u >= 0, "usage.nonneg")
	verifnd.Assert(u == u, "usage.not-nan")
	verifnd.Assert(verifnd.Implies(total == 0, u == 0), "usage.unknown-total")
	verifnd.Assert(verifnd.Implies(verifnd.And(total != 0, used > total), u == 100), "usage.overfull")
	verifnd.Reach("C18.usage")
}

// H_C18_usage_exact: Usage is the percentage used/total — decided against exact integer
// arithmetic at half-percent thresholds k/2 (k = 0..200; thresholds like 95.5 are configurable):
// ratio >= k/2 implies Usage >= k/2, ratio < k/2 implies Usage <= k/2 (the second only with <=:
// a correctly rounded quotient may round up to the threshold). Bound: used <= total < 2^bits.
func H_C18_usage_exact() {
	bits := uint(verifnd.Param("bits", 20))
	used := verifnd.Uint64("used")
	total := verifnd.Uint64("total")
	verifnd.Assume(verifnd.And(total > 0, total < 1<<bits))
	verifnd.Assume(used <= total)
	ks := []uint64{1, 100, 181, 191, 199, 200}
	k := ks[verifnd.Choose("k", len(ks))]
	u := nodestate.DiskState{Used: used, Total: total}.Usage()
	th := float64(k) / 2
	verifnd.Assert(verifnd.Implies(200*used >= k*total, u >= th), "usage.exact.at-least")
	verifnd.Assert(verifnd.Implies(200*used < k*total, u <= th), "usage.exact.at-most")
	verifnd.Reach("C18.usage.exact")
}

// H_C18_decision: one call of repairReadOnlyOnMaster from an arbitrary situation.
func H_C18_decision() {
	nrep := verifnd.Choose("replicas", verifnd.Param("max_replicas", 2)+1)
	hosts := []string{"m"}
	for i := 0; i < nrep; i++ {
		hosts = append(hosts, "r"+string(rune('1'+i)))
	}
	cfg := verifConfig("m")
	cfg.SemiSync = verifnd.Bool("cfg.semisync")
	cfg.KeepSuperWritableOnCriticalDiskUsage = verifnd.Bool("cfg.keep_super")
	crit := verifnd.Float("cfg.critical")
	notcrit := verifnd.Float("cfg.not_critical")
	verifnd.Assume(notcrit <= crit) // Config.Validate
	cfg.CriticalDiskUsage, cfg.NotCriticalDiskUsage = crit, notcrit
	w := verifNewWorld(cfg, hosts, nil)
	w.fleet.FaultBudget = verifnd.Param("faults", 0)
	w.fleet.FaultKinds = 2

	// usage per host: arbitrary value satisfying the Usage contract (H_C18_usage)
	usage := make([]float64, len(hosts))
	for i := range hosts {
		usage[i] = verifnd.Float("usage." + hosts[i]) // any non-NaN value
	}
	nodestate.VerifHook_DiskState_Usage = func(ds nodestate.DiskState) float64 { return usage[ds.Used] }

	// the manager's view of the master
	ms := &nodestate.NodeState{PingOk: true, IsMaster: true}
	ms.IsReadOnly = verifnd.Bool("master.ro")
	ms.IsSuperReadOnly = verifnd.Bool("master.sro")
	verifnd.Assume(verifnd.Implies(ms.IsSuperReadOnly, ms.IsReadOnly)) // MySQL: super_read_only ⇒ read_only
	hasSS := verifnd.Choose("master.semisync_state", 2) == 1
	wait := 0
	if hasSS {
		wait = verifnd.Int("master.wait_count", 0, 3)
		ms.SemiSyncState = &nodestate.SemiSyncState{MasterEnabled: true, WaitSlaveCount: wait}
	}
	srv := w.fleet.Servers["m"]
	srv.ReadOnly, srv.SuperRO = ms.IsReadOnly, ms.IsSuperReadOnly

	// health records
	csd := map[string]*nodestate.NodeState{}
	masterReported := false
	running, low, normal := 0, 0, 0
	for i, h := range hosts {
		ns := &nodestate.NodeState{PingOk: true}
		if verifnd.Choose("report."+h, 2) == 1 {
			ns.DiskState = &nodestate.DiskState{Used: uint64(i), Total: 1000}
		}
		if h == "m" {
			ns.IsMaster = true
			masterReported = ns.DiskState != nil
		} else {
			ss := verifnd.Bool("ss_slave." + h)
			ns.SemiSyncState = &nodestate.SemiSyncState{SlaveEnabled: ss}
			st := []string{mysql.ReplicationRunning, mysql.ReplicationStopped, mysql.ReplicationError}[verifnd.Choose("repl."+h, 3)]
			ns.SlaveState = &nodestate.SlaveState{MasterHost: "m", ReplicationState: st}
			if ns.DiskState != nil && st == mysql.ReplicationRunning {
				counted := verifnd.And(cfg.SemiSync, ss)
				running = verifnd.IteInt(counted, running+1, running)
				low = verifnd.IteInt(verifnd.And(counted, usage[i] >= crit), low+1, low)
				normal = verifnd.IteInt(verifnd.And(counted, usage[i] <= notcrit), normal+1, normal)
			}
		}
		csd[h] = ns
	}

	w.app.repairReadOnlyOnMaster(w.app.cluster.Get("m"), ms, csd)

	// what happened
	forced, setRO, setRONoSuper, setRW := false, false, false, false
	for _, e := range w.fleet.Log {
		switch e {
		case "m:set_readonly":
			setRO = true
		case "m:set_readonly_no_super":
			setRONoSuper = true
		case "m:set_writable":
			setRW = true
		}
		if !strings.HasPrefix(e, "m:") {
			verifnd.Assert(false, "disk.statement-on-replica")
		}
	}
	forced = setRO || setRONoSuper
	faulted := len(w.fleet.FaultsUsed) > 0
	lowSpace, lowWritten := w.dcs.peek(pathLowSpace)

	keep := cfg.KeepSuperWritableOnCriticalDiskUsage
	needRO := verifnd.Or(verifnd.And(masterReported, usage[0] >= crit),
		verifnd.And(verifnd.And(running > 0, hasSS), low > running-wait))
	already := verifnd.And(ms.IsReadOnly, keep != ms.IsSuperReadOnly)
	mayWrite := verifnd.And(verifnd.Or(!masterReported, usage[0] <= notcrit), verifnd.Or(running == 0, normal >= 1))

	if !faulted {
		verifnd.Assert(verifnd.Iff(forced, verifnd.And(needRO, verifnd.Not(already))), "ro.iff")
		if forced {
			verifnd.Reach("C18.ro")
			verifnd.Assert(verifnd.Iff(setRO, verifnd.Not(keep)), "ro.super-flag")
			verifnd.Assert(setRO != setRONoSuper, "ro.super-flag")
			verifnd.Assert(lowWritten && lowSpace == true, "lowspace.follows")
			verifnd.Assert(srv.ReadOnly && verifnd.Iff(srv.SuperRO, verifnd.Not(keep)), "ro.effect")
		}
		if setRW {
			verifnd.Reach("C18.rw")
			verifnd.Assert(verifnd.And(ms.IsReadOnly, verifnd.And(verifnd.Not(needRO), mayWrite)), "rw.only-if")
			verifnd.Assert(lowWritten && lowSpace == false, "lowspace.follows")
			verifnd.Assert(!forced, "rw.not-both")
		}
		if !forced && !setRW {
			verifnd.Reach("C18.untouched")
			verifnd.Assert(!lowWritten, "lowspace.untouched")
		}
	} else {
		verifnd.Reach("C18.faulted")
		// a failing call never flips the flag the wrong way
		if lowWritten {
			verifnd.Assert(forced || setRW, "lowspace.follows")
		}
	}
	// never un-fences while a read-only reason exists, with or without faults
	if setRW {
		verifnd.Assert(verifnd.Not(needRO), "rw.only-if")
	}
}

// H_C18_decision_faults: the same step with one failing / lost-reply call.
func H_C18_decision_faults() { H_C18_decision() }
