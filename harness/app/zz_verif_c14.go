package app

// C14 — candidate selection honours priority within the lag bound; and the
// C13 clause about choosing the most recent node.

import (
	"time"

	"github.com/rs/zerolog"
	"github.com/yandex/mysync/internal/log"
	"github.com/yandex/mysync/internal/verifnd"
)

func verifLogger() *log.Logger {
	l := zerolog.Nop()
	return &l
}

var verifHostNames = []string{"h0", "h1", "h2", "h3", "h4", "h5"}

// verifPositions: n positions with distinct hosts, arbitrary priority, non-NaN lag and bit-set GTIDs.
func verifPositions(n int, bits uint64, equalPrio bool) []nodePosition {
	ps := make([]nodePosition, n)
	var prio0 int64
	for i := 0; i < n; i++ {
		h := verifHostNames[i]
		b := verifnd.Uint64("gtid." + h)
		verifnd.Assume(b&^bits == 0)
		pr := verifnd.Int64("prio." + h)
		if equalPrio {
			if i == 0 {
				prio0 = pr
			} else {
				verifnd.Assume(pr == prio0)
			}
		}
		ps[i] = nodePosition{host: h, gtidset: &bitGTID{b}, lag: verifnd.Float("lag." + h), priority: pr}
	}
	return ps
}

// verifBoundSeconds: a lag bound of a whole number of seconds in [0, 2^31]
// (Duration.Seconds() is then exactly float64(k); sub-second bounds are outside the claim).
func verifBoundSeconds() time.Duration {
	k := verifnd.Int64("bound.seconds")
	verifnd.Assume(verifnd.And(k >= 0, k <= 1<<31))
	return time.Duration(k) * time.Second
}

func verifBits(p nodePosition) uint64 { return p.gtidset.(*bitGTID).bits }

func verifFind(ps []nodePosition, host string) int {
	for i := range ps {
		if ps[i].host == host {
			return i
		}
	}
	return -1
}

// H_C14_choice: result ∈ offered; error ⇔ none offered; priority within the lag bound.
func H_C14_choice() {
	n := verifnd.Choose("n", verifnd.Param("max_n", 3)+1)
	bits := uint64(1)<<uint(verifnd.Param("gtid_bits", 3)) - 1
	ps := verifPositions(n, bits, false)
	bound := verifBoundSeconds()
	boundS := bound.Seconds()

	host, err := getMostDesirableNode(verifLogger(), ps, bound)
	if n == 0 {
		verifnd.Assert(err != nil, "choice.error-iff-empty")
		verifnd.Reach("C14.empty")
		return
	}
	verifnd.Assert(err == nil, "choice.error-iff-empty")
	ri := verifFind(ps, host)
	verifnd.Assert(ri >= 0, "choice.member")
	if ri < 0 {
		return
	}
	r := ps[ri]
	// ∃ admissible top t with: (lag(t) ≤ bound ⇒ result = t) ∧ (result = t ∨ lag(result) < lag(t) − bound)
	ok := false
	for ti := range ps {
		t := ps[ti]
		adm := true
		for ci := range ps {
			c := ps[ci]
			if ci == ti {
				continue
			}
			adm = verifnd.And(adm, c.priority <= t.priority)
			same := c.priority == t.priority
			larger := verifnd.And(verifBits(t)&^verifBits(c) == 0, verifBits(c) != verifBits(t))
			adm = verifnd.And(adm, verifnd.Not(verifnd.And(same, larger)))
			equalSet := verifBits(c) == verifBits(t)
			adm = verifnd.And(adm, verifnd.Not(verifnd.And(verifnd.And(same, equalSet), c.lag < t.lag)))
		}
		isT := ri == ti
		c1 := verifnd.Implies(t.lag <= boundS, isT)
		c2 := verifnd.Or(isT, r.lag < t.lag-boundS)
		ok = verifnd.Or(ok, verifnd.And(adm, verifnd.And(c1, c2)))
	}
	verifnd.Assert(ok, "choice.priority-within-bound")
	if n >= 2 {
		verifnd.Reach("C14.choice.multi")
	}
}

// H_C14_from_filter: after filtering, the host the switch moves away from is never chosen.
func H_C14_from_filter() {
	n := 1 + verifnd.Choose("n", verifnd.Param("max_n", 3))
	ps := verifPositions(n, 7, false)
	from := verifHostNames[verifnd.Choose("from", n+1)] // possibly a host that is not offered
	bound := verifBoundSeconds()
	filtered := filterOutNodeFromPositions(ps, from)
	for _, p := range filtered {
		verifnd.Assert(p.host != from, "choice.not-from")
	}
	verifnd.Assert(len(filtered) == n || (len(filtered) == n-1 && verifFind(ps, from) >= 0), "filter.only-from-removed")
	host, err := getMostDesirableNode(verifLogger(), filtered, bound)
	if err == nil {
		verifnd.Assert(host != from, "choice.not-from")
		verifnd.Assert(verifFind(filtered, host) >= 0, "choice.member")
		verifnd.Reach("C14.filter.chosen")
	} else {
		verifnd.Assert(len(filtered) == 0, "choice.error-iff-empty")
		verifnd.Reach("C14.filter.none")
	}
}

// H_C14_vs_most_recent: equal priorities ∧ all lags ≤ bound ∧ a maximum exists ⇒ same host as the most recent node.
func H_C14_vs_most_recent() {
	n := 1 + verifnd.Choose("n", verifnd.Param("max_n", 3))
	bits := uint64(1)<<uint(verifnd.Param("gtid_bits", 3)) - 1
	ps := verifPositions(n, bits, true)
	bound := verifBoundSeconds()
	boundS := bound.Seconds()
	for _, p := range ps {
		verifnd.Assume(p.lag <= boundS)
	}
	mrHost, _, split := findMostRecentNodeAndDetectSplitbrain(ps)
	host, err := getMostDesirableNode(verifLogger(), ps, bound)
	verifnd.Assert(err == nil, "choice.error-iff-empty")
	if !split {
		verifnd.Assert(host == mrHost, "choice.equals-most-recent")
		verifnd.Reach("C14.mr.agree")
	} else {
		verifnd.Reach("C14.mr.split")
	}
}

// H_C13_most_recent (C13, last sentence): returns a node whose set contains all
// the others', or reports split brain exactly when no such node exists.
func H_C13_most_recent() {
	n := 1 + verifnd.Choose("n", verifnd.Param("max_n", 4))
	bits := uint64(1)<<uint(verifnd.Param("gtid_bits", 4)) - 1
	ps := verifPositions(n, bits, false)
	host, set, split := findMostRecentNodeAndDetectSplitbrain(ps)
	// does a maximum exist?
	exists := false
	for i := range ps {
		all := true
		for j := range ps {
			all = verifnd.And(all, verifBits(ps[j])&^verifBits(ps[i]) == 0)
		}
		exists = verifnd.Or(exists, all)
	}
	verifnd.Assert(verifnd.Iff(split, verifnd.Not(exists)), "recent.split-iff-no-max")
	if split {
		verifnd.Reach("C13.recent.split")
		verifnd.Assert(host == "" && set == nil, "recent.split-returns-nothing")
		return
	}
	verifnd.Reach("C13.recent.max")
	ri := verifFind(ps, host)
	verifnd.Assert(ri >= 0, "recent.member")
	if ri < 0 {
		return
	}
	verifnd.Assert(set.(*bitGTID).bits == verifBits(ps[ri]), "recent.set-is-hosts")
	for j := range ps {
		verifnd.Assert(verifBits(ps[j])&^verifBits(ps[ri]) == 0, "recent.contains-all")
	}
	// among nodes holding the maximum, the one with the least lag (first on ties) is returned
	for j := range ps {
		verifnd.Assert(verifnd.Implies(verifBits(ps[j]) == verifBits(ps[ri]), ps[ri].lag <= ps[j].lag), "recent.least-lag-among-equal")
	}
}
