package app

// C08 — lost coordination service: fence the local node unless provably safe.
//
// One call of the real stateLost (with the real checkHAReplicasRunning,
// getLocalNodeState, stopReplicationOnMaster, Timings, mysql.Cluster registry,
// SetReadOnly / setReadonlyWithTimeout / SemiSyncStatus / ReplicaStatusWithTimeout …)
// from an arbitrary situation, over the fake fleet. The cut is at the private
// query funnels of *mysql.Node; SetReadOnlyWithForce is the fleet's contract stub
// (one forced attempt through the real setReadonlyWithTimeout).
//
// The harness wraps the funnel hooks installed by mysql.VerifInstall to
//   * record every statement by host (local mutating attempts, remote writes, remote reads),
//   * make a remote host hang (context.DeadlineExceeded) — "unreachable", as opposed to
//     Alive=false — "refusing",
//   * choose the outcome of every SET read_only on the local node ∈ {ok, 1205, deadline, other}.
// Everything that only feeds a decision of the real code is a symbolic bool that
// forks lazily, when (and if) the real code looks at it.

import (
	"context"
	"errors"
	"strconv"
	"time"

	mysqldriver "github.com/go-sql-driver/mysql"
	"github.com/yandex/mysync/internal/mysql"
	"github.com/yandex/mysync/internal/verifnd"
)

const (
	c08Local = "h0"
	c08Decoy = "h9" // a source host that is not the local node

	c08OK       = 0
	c08Err1205  = 1
	c08Deadline = 2
	c08Other    = 3
)

var errC08Injected = errors.New("injected: semisync_status failed")

// c08Attempt: a mutating statement that arrived at the local server.
type c08Attempt struct {
	q       string
	forced  bool // issued from inside SetReadOnlyWithForce
	outcome int
}

// c08Remote: the symbolic situation of a non-local host.
type c08Remote struct {
	host     string
	alive    bool // false: refuses connections
	hang     bool // every statement runs into its deadline
	hangSS   bool // … only the semi-sync status query does (became unreachable mid-probe)
	isRep    bool
	io, sql  bool
	srcLocal bool // streams from the local node
	ssSlave  bool
}

type c08Env struct {
	w            *verifWorld
	remotes      map[string]*c08Remote
	ssFail       bool   // the local semisync_status query fails
	roOutcomes   int    // how many of {ok, 1205, deadline, other} a SET read_only may end with
	localFault   string // this status query of the local node fails once (H_C08_local_status_fault)
	inForce      bool
	roAttempts   int
	attempts     []c08Attempt
	forceCalls   []string // host:super
	remoteWrites []string
	remoteReads  []string
}

func c08IsSetRO(q string) bool { return q == "set_readonly" || q == "set_readonly_no_super" }

func (e *c08Env) readGate(n *mysql.Node, q string) error {
	h := n.Host()
	if h == c08Local {
		if q == "semisync_status" && e.ssFail {
			return errC08Injected
		}
		if q == e.localFault {
			// one-shot: the first such query on the local node runs into its deadline
			e.localFault = ""
			verifnd.Event("c08 local " + q + " -> deadline exceeded")
			return context.DeadlineExceeded
		}
		return nil
	}
	e.remoteReads = append(e.remoteReads, h+":"+q)
	r := e.remotes[h]
	if r == nil {
		return nil
	}
	if r.hang {
		return context.DeadlineExceeded
	}
	if q == "semisync_status" && r.hangSS {
		return context.DeadlineExceeded
	}
	if q == "replica_status" || q == "slave_status" {
		// The source name must be concrete. It is decided (forking) only where it can
		// matter for a correct probe: on a reachable replica with both threads running.
		// Everywhere else the reply names the local node — the adversarial choice, so
		// that only the other checks stand between such a host and being counted.
		s := e.w.fleet.Servers[h]
		s.Source = c08Local
		if r.alive {
			if r.isRep {
				if r.io {
					if r.sql {
						if !r.srcLocal {
							s.Source = c08Decoy
						}
					}
				}
			}
		}
	}
	return nil
}

func (e *c08Env) execGate(n *mysql.Node, q string) (error, bool) {
	h := n.Host()
	if h != c08Local {
		e.remoteWrites = append(e.remoteWrites, h+":"+q)
		return nil, false
	}
	a := c08Attempt{q: q, forced: e.inForce}
	if c08IsSetRO(q) {
		e.roAttempts++
		a.outcome = verifnd.Choose("ro.outcome."+strconv.Itoa(e.roAttempts), e.roOutcomes)
	}
	e.attempts = append(e.attempts, a)
	switch a.outcome {
	case c08Err1205:
		verifnd.Event("c08 " + q + " -> error 1205")
		return &mysqldriver.MySQLError{Number: 1205, Message: "Lock wait timeout exceeded; try restarting transaction"}, true
	case c08Deadline:
		verifnd.Event("c08 " + q + " -> deadline exceeded")
		return context.DeadlineExceeded, true
	case c08Other:
		verifnd.Event("c08 " + q + " -> error 1317")
		return &mysqldriver.MySQLError{Number: 1317, Message: "Query execution was interrupted"}, true
	}
	return nil, false
}

func (e *c08Env) install() {
	prevQ := mysql.VerifHook_Node_queryRowWithTimeout
	mysql.VerifHook_Node_queryRowWithTimeout = func(n *mysql.Node, queryName string, arg any, result any, timeout time.Duration) error {
		if err := e.readGate(n, queryName); err != nil {
			return err
		}
		return prevQ(n, queryName, arg, result, timeout)
	}
	prevQM := mysql.VerifHook_Node_queryRowMogrifyWithTimeout
	mysql.VerifHook_Node_queryRowMogrifyWithTimeout = func(n *mysql.Node, queryName string, arg map[string]any, result any, timeout time.Duration) error {
		if err := e.readGate(n, queryName); err != nil {
			return err
		}
		return prevQM(n, queryName, arg, result, timeout)
	}
	prevE := mysql.VerifHook_Node_execWithTimeout
	mysql.VerifHook_Node_execWithTimeout = func(n *mysql.Node, queryName string, arg map[string]any, timeout time.Duration) error {
		if err, failed := e.execGate(n, queryName); failed {
			return err
		}
		return prevE(n, queryName, arg, timeout)
	}
	prevEM := mysql.VerifHook_Node_execMogrifyWithTimeout
	mysql.VerifHook_Node_execMogrifyWithTimeout = func(n *mysql.Node, queryName string, arg map[string]any, timeout time.Duration) error {
		if err, failed := e.execGate(n, queryName); failed {
			return err
		}
		return prevEM(n, queryName, arg, timeout)
	}
	prevF := mysql.VerifHook_Node_SetReadOnlyWithForce
	mysql.VerifHook_Node_SetReadOnlyWithForce = func(n *mysql.Node, excludeUsers []string, superReadOnly bool) error {
		if superReadOnly {
			e.forceCalls = append(e.forceCalls, n.Host()+":true")
		} else {
			e.forceCalls = append(e.forceCalls, n.Host()+":false")
		}
		e.inForce = true
		err := prevF(n, excludeUsers, superReadOnly)
		e.inForce = false
		return err
	}
	prevW := mysql.VerifHook_Node_IsWaitingSemiSyncAck
	mysql.VerifHook_Node_IsWaitingSemiSyncAck = func(n *mysql.Node) (bool, error) {
		if n.Host() != c08Local {
			e.remoteReads = append(e.remoteReads, n.Host()+":has_waiting_semi_sync_ack")
		}
		return prevW(n)
	}
}

// c08Forbidden: statements that promote, re-point or un-fence.
func c08Forbidden(q string) bool {
	switch q {
	case "set_writable", "disable_offline_mode",
		"change_master", "change_source", "change_source_with_delay", "change_source_host",
		"reset_slave_all", "reset_replica_all",
		"start_slave", "start_replica",
		"start_slave_io_thread", "start_replica_io_thread",
		"start_slave_sql_thread", "start_replica_sql_thread",
		"semisync_set_master", "semisync_set_slave":
		return true
	}
	return false
}

// H_C08_lost: the decision table. One iteration of the Lost state from an arbitrary
// situation of up to `hosts` hosts; the read-only statement itself succeeds (the
// failure modes of the fence are the subject of H_C08_fence; ro_outcomes=4 and
// ss_fail=1 give the full product here as well).
func H_C08_lost() {
	c08Run(verifnd.Param("hosts", 3), verifnd.Param("ro_outcomes", 1), verifnd.Param("ss_fail", 0), verifnd.Param("local_fault", 0))
}

// H_C08_fence: the fence procedure. The same iteration with every outcome of the
// read-only statements ∈ {ok, 1205, deadline exceeded, other error}, stuck commits or
// not, a failing local semi-sync status query, in a cluster of up to `hosts` hosts.
func H_C08_fence() {
	c08Run(verifnd.Param("hosts", 2), verifnd.Param("ro_outcomes", 4), verifnd.Param("ss_fail", 1), verifnd.Param("local_fault", 0))
}

// H_C08_local_status_fault: NOT part of the clean claim — the same iteration when one
// of the status queries getLocalNodeState sends to the local server runs into its
// deadline (NodeState.IsMaster then stays false). Kept as a separate entry because the
// unchanged tree violates lost.live-group-untouched and lost.master-forced here
// (see RESULTS.md, finding F1).
func H_C08_local_status_fault() {
	c08Run(verifnd.Param("hosts", 2), verifnd.Param("ro_outcomes", 1), verifnd.Param("ss_fail", 0), 1)
}

func c08Run(maxHosts, roOutcomes, ssFailOn, localFaultOn int) {

	// ---- topology (structural) ----
	// 0: single-node HA cluster; 1: local host is a cascade (non-HA) replica of a 2-node HA cluster;
	// 2+i: HA cluster of 2+i hosts, the local one among them.
	topo := verifnd.Choose("topology", maxHosts+1)
	var ha []string
	var cascade map[string]string
	single, nonHA := false, false
	switch topo {
	case 0:
		single = true
		ha = []string{c08Local}
	case 1:
		nonHA = true
		ha = []string{"h1", "h2"}
		cascade = map[string]string{c08Local: "h1"}
	default:
		ha = []string{c08Local}
		for i := 1; i < topo; i++ {
			ha = append(ha, "h"+strconv.Itoa(i))
		}
	}
	nHA := len(ha)

	cfg := verifConfig(c08Local)
	cfg.SemiSync = verifnd.Bool("cfg.semisync")
	cfg.DisableSetReadonlyOnLost = verifnd.Bool("cfg.disable_set_readonly_on_lost")
	delay := verifnd.Int64("cfg.inactivation_delay")
	verifnd.Assume(verifnd.And(delay >= 0, delay <= int64(24*time.Hour)))
	cfg.InactivationDelay = time.Duration(delay)

	w := verifNewWorld(cfg, ha, cascade)
	e := &c08Env{w: w, remotes: map[string]*c08Remote{}, roOutcomes: roOutcomes}
	e.install()

	w.dcs.Connected = verifnd.Bool("dcs.connected")

	// ---- local server ----
	loc := w.fleet.Servers[c08Local]
	localIsReplica := verifnd.Bool("local.is_replica")
	if nonHA {
		verifnd.Assume(localIsReplica)
	}
	loc.IsReplica = localIsReplica
	loc.Source = "h1"
	loc.IORunning, loc.SQLRunning = true, true
	loc.LagValid, loc.Lag = true, 0
	loc.SSMaster = true
	waitCount := verifnd.Int("local.wait_slave_count", 0, maxHosts)
	loc.WaitCount = waitCount
	waitingAck := verifnd.Bool("local.waiting_semi_sync_ack")
	loc.WaitingAck = waitingAck
	if ssFailOn != 0 {
		e.ssFail = verifnd.Bool("local.semisync_status_fails")
	}
	if localFaultOn != 0 {
		// one of the status queries of getLocalNodeState fails (once)
		qs := []string{"", "ping", "is_readonly", "get_offline_mode", "get_version", "replica_status", "get_replication_settings"}
		e.localFault = qs[verifnd.Choose("local.status_query_fails", len(qs))]
		verifnd.Fact("local_status_query_failed", "yes")
	}

	// ---- the other hosts ----
	good := 0        // replicas the probe must count
	unreach := false // some probe runs into a deadline
	for _, h := range w.fleet.Hosts {
		if h == c08Local {
			continue
		}
		r := &c08Remote{host: h,
			alive:    verifnd.Bool("alive." + h),
			hang:     verifnd.Bool("hang." + h),
			hangSS:   verifnd.Bool("hang_semisync." + h),
			isRep:    verifnd.Bool("is_replica." + h),
			io:       verifnd.Bool("io_running." + h),
			sql:      verifnd.Bool("sql_running." + h),
			srcLocal: verifnd.Bool("streams_from_local." + h),
			ssSlave:  verifnd.Bool("semisync_slave." + h),
		}
		e.remotes[h] = r
		s := w.fleet.Servers[h]
		s.Alive, s.IsReplica, s.IORunning, s.SQLRunning, s.SSSlave = r.alive, r.isRep, r.io, r.sql, r.ssSlave
		// a thread that is not running may have died with an error number recorded (state "error")
		s.IOErrno = verifnd.IteInt(verifnd.And(verifnd.Not(r.io), verifnd.Bool("io_errno."+h)), 1236, 0)
		s.SQLErrno = verifnd.IteInt(verifnd.And(verifnd.Not(r.sql), verifnd.Bool("sql_errno."+h)), 1062, 0)
		s.ReadOnly, s.SuperRO = true, true
		s.Source = c08Decoy
		if !w.app.cluster.IsHAHost(h) {
			continue
		}
		// running and streaming from the local node, as far as the first probe query tells
		streaming := verifnd.And(verifnd.And(verifnd.Not(r.hang), r.alive),
			verifnd.And(verifnd.And(r.isRep, r.srcLocal), verifnd.And(r.io, r.sql)))
		ssAsked := verifnd.And(streaming, cfg.SemiSync)
		ok := verifnd.And(streaming, verifnd.Or(verifnd.Not(cfg.SemiSync), verifnd.And(verifnd.Not(r.hangSS), r.ssSlave)))
		good = verifnd.IteInt(ok, good+1, good)
		unreach = verifnd.Or(unreach, verifnd.Or(r.hang, verifnd.And(ssAsked, r.hangSS)))
	}

	// ---- the ZKHALost timer: unset, or set at some earlier instant ----
	c0 := verifnd.ClockNS()
	t0set := verifnd.Choose("timer.set", 2) == 1
	var t0 int64
	if t0set {
		t0 = verifnd.Int64("timer.at")
		verifnd.Assume(verifnd.And(t0 >= 1, t0 <= c0))
		w.app.t.Set(ZKHALost, c08Local, verifnd.TimeAt(t0))
	}

	// One exact instant for the whole iteration unless free_clock=1: then the clock also
	// advances between the reads inside the call and the oracle allows for the slack
	// (sums of clock steps make the solver queries slow: thorough tier, cvc5).
	verifnd.ClockFrozen = verifnd.Param("free_clock", 0) == 0
	w.app.state = stateLost
	st := w.app.stateLost()
	verifnd.ClockFrozen = false

	c1 := c0
	if verifnd.Param("free_clock", 0) != 0 {
		c1 = verifnd.ClockNS()
	}
	t1 := w.app.t.Get(ZKHALost, c08Local)
	t1zero := t1.IsZero()

	// ---- what happened ----
	nothingMutating := len(e.attempts) == 0 && len(e.remoteWrites) == 0 && len(w.fleet.Log) == 0
	forbidden := false
	for _, a := range e.attempts {
		if c08Forbidden(a.q) {
			forbidden = true
			verifnd.Fact("forbidden", c08Local+":"+a.q)
		}
	}
	for _, x := range e.remoteWrites {
		verifnd.Fact("remote-write", x)
	}
	for _, x := range w.fleet.Log {
		// applied statements as the fleet saw them (host:stmt or host:stmt(arg))
		for _, h := range w.fleet.Hosts {
			p := h + ":"
			if len(x) > len(p) && x[:len(p)] == p {
				q := x[len(p):]
				for i := 0; i < len(q); i++ {
					if q[i] == '(' {
						q = q[:i]
						break
					}
				}
				if c08Forbidden(q) {
					forbidden = true
					verifnd.Fact("forbidden", x)
				}
			}
		}
	}
	probesOnly := true
	for _, x := range e.remoteReads {
		ok := false
		for _, h := range w.fleet.Hosts {
			for _, q := range []string{"get_version", "replica_status", "slave_status", "semisync_status"} {
				if x == h+":"+q {
					ok = true
				}
			}
		}
		if !ok {
			probesOnly = false
			verifnd.Fact("remote-read", x)
		}
	}

	conn := w.dcs.Connected
	lost := verifnd.Not(conn)
	disabled := cfg.DisableSetReadonlyOnLost
	exempt := verifnd.Or(single || nonHA, disabled)
	active := verifnd.And(lost, verifnd.Not(exempt))
	isMaster := verifnd.Not(localIsReplica)
	enough := verifnd.IteBool(cfg.SemiSync,
		verifnd.And(verifnd.Not(e.ssFail), good >= waitCount),
		good >= nHA-1)
	live := verifnd.And(isMaster, enough)
	mustAct := verifnd.And(active, verifnd.Not(live))

	// elapsed time since the timer was armed, as the real code may have measured it:
	// somewhere in [lo, hi]
	var lo, hi int64
	if t0set {
		lo, hi = c0-t0, c1-t0
	} else {
		lo, hi = 0, c1-c0
	}
	mustFence := verifnd.Or(verifnd.Not(unreach), lo > delay)
	mustPostpone := verifnd.And(unreach, hi < delay)

	// ---- the decision table ----
	verifnd.Assert(verifnd.Implies(conn, st == stateCandidate), "lost.connected-candidate")
	verifnd.Assert(verifnd.Implies(conn, t1zero), "lost.timer-cleaned")
	verifnd.Assert(verifnd.Implies(lost, st == stateLost), "lost.stays-lost")
	verifnd.Assert(st == stateLost || st == stateCandidate, "lost.lost-or-candidate")
	verifnd.Assert(verifnd.Implies(verifnd.And(lost, exempt), nothingMutating), "lost.exempt-untouched")
	verifnd.Assert(verifnd.Implies(verifnd.And(active, live), nothingMutating), "lost.live-group-untouched")
	verifnd.Assert(verifnd.Implies(verifnd.And(active, live), t1zero), "lost.timer-cleaned")
	verifnd.Assert(verifnd.Implies(verifnd.And(mustAct, mustPostpone), nothingMutating), "lost.postponed-while-unreachable")
	roFirst := len(e.attempts) > 0 && c08IsSetRO(e.attempts[0].q)
	verifnd.Assert(verifnd.Implies(verifnd.And(mustAct, mustFence), roFirst), "lost.fence-unless-provably-safe")

	// never promotes, re-points or un-fences; never changes another host
	verifnd.Assert(verifnd.Implies(lost, !forbidden), "lost.never-unfence-promote-repoint")
	verifnd.Assert(verifnd.Implies(lost, len(e.remoteWrites) == 0), "lost.remote-untouched")
	verifnd.Assert(verifnd.Implies(lost, probesOnly), "lost.remote-probes-only")
	for _, x := range w.fleet.Log {
		p := c08Local + ":"
		verifnd.Assert(len(x) > len(p) && x[:len(p)] == p, "lost.remote-untouched")
	}

	// the timer: never in the future; a postponement keeps the instant it is counted from
	if !t1zero {
		t1ns := verifnd.UnixNano(t1)
		verifnd.Assert(c1-t1ns >= 0, "lost.timer-sane")
		if len(e.attempts) == 0 {
			if t0set {
				verifnd.Assert(verifnd.Implies(verifnd.And(mustAct, unreach), t1ns == t0), "lost.timer-kept")
			} else {
				verifnd.Assert(verifnd.Implies(verifnd.And(mustAct, unreach), verifnd.And(t1ns-c0 >= 0, c1-t1ns >= 0)), "lost.timer-kept")
			}
		}
	} else if len(e.attempts) == 0 {
		// postponed ⇒ the timer is armed
		verifnd.Assert(verifnd.Not(verifnd.And(mustAct, unreach)), "lost.timer-kept")
	}

	// ---- witnesses for the quiet outcomes ----
	if len(e.attempts) == 0 {
		if conn {
			verifnd.Reach("C08.connected")
			return
		}
		if single {
			verifnd.Reach("C08.single-node")
			return
		}
		if nonHA {
			verifnd.Reach("C08.non-ha-host")
			return
		}
		if disabled {
			verifnd.Reach("C08.disabled")
			return
		}
		if live {
			if cfg.SemiSync {
				verifnd.Reach("C08.live-group.semisync")
			} else {
				verifnd.Reach("C08.live-group.async")
			}
			return
		}
		if t0set {
			verifnd.Reach("C08.postponed.timer-running")
		} else {
			verifnd.Reach("C08.postponed.timer-armed")
		}
		return
	}

	// ---- the fence itself ----
	// only ever on an HA host of a multi-node cluster that lost the service, and is not exempt
	verifnd.Assert(mustAct, "lost.fence-only-when-needed")
	first := e.attempts[0]
	verifnd.Assert(roFirst, "lost.fence-first-statement")
	if !roFirst {
		return
	}
	if unreach {
		verifnd.Reach("C08.fence.after-delay")
	}
	lastRO := first
	if isMaster {
		// master: forced (client sessions are cut), super_read_only requested
		verifnd.Assert(first.forced, "lost.master-forced")
		verifnd.Assert(first.q == "set_readonly", "lost.master-super")
		verifnd.Assert(len(e.forceCalls) > 0 && e.forceCalls[0] == c08Local+":true", "lost.master-forced")
		timeout := first.outcome == c08Err1205 || first.outcome == c08Deadline
		if timeout {
			if waitingAck {
				// commits hang waiting for an acknowledgement: cut sessions, disable semi-sync, force again
				iOff, iSS, iRO := -1, -1, -1
				for i, a := range e.attempts {
					if i == 0 {
						continue
					}
					switch {
					case a.q == "enable_offline_mode" && iOff < 0:
						iOff = i
					case a.q == "semisync_disable" && iSS < 0:
						iSS = i
					case c08IsSetRO(a.q):
						iRO = i
					}
				}
				verifnd.Assert(iOff > 0, "lost.stuck-offline")
				verifnd.Assert(iSS > 0, "lost.stuck-semisync-disabled")
				verifnd.Assert(iRO > iOff && iRO > iSS && iOff > 0 && iSS > 0, "lost.stuck-second-attempt")
				if iRO > 0 {
					lastRO = e.attempts[iRO]
					verifnd.Assert(lastRO.forced && lastRO.q == "set_readonly", "lost.stuck-second-attempt")
					if lastRO.outcome == c08OK {
						verifnd.Reach("C08.fence.master.stuck.retry-ok")
						verifnd.Assert(loc.Offline, "lost.stuck-offline")
						verifnd.Assert(verifnd.Not(loc.SSMaster), "lost.stuck-semisync-disabled")
					} else {
						verifnd.Reach("C08.fence.master.stuck.retry-failed")
					}
				}
			} else {
				verifnd.Reach("C08.fence.master.timeout-not-stuck")
			}
		} else if first.outcome == c08OK {
			verifnd.Reach("C08.fence.master.ok")
		} else {
			verifnd.Reach("C08.fence.master.other-error")
		}
	} else {
		if first.outcome == c08OK {
			verifnd.Reach("C08.fence.replica.ok")
		} else {
			verifnd.Reach("C08.fence.replica.failed")
		}
	}
	// a read-only statement that succeeded leaves the node read-only (nil ⇒ verified)
	if lastRO.outcome == c08OK {
		verifnd.Assert(verifnd.And(loc.ReadOnly, loc.SuperRO), "lost.fenced-state")
	}
}
