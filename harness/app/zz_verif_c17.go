package app

// C17 — offline-mode policy: thresholds, hysteresis, per-zone cap, rate limit
// for permanently broken replicas, master kept online.
//
// Every entry point runs ONE real repairOfflineMode pass (with the real
// repairSlaveOfflineMode / repairMasterOfflineMode / NewOfflineModeFilter /
// azLimitedOfflineFilter / getAvailabilityZone / IsReplicationPermanentlyBroken /
// appDCS limiter and resetup-status accessors / Node.SetOnline / SetOffline /
// SetDefaultReplicationSettings) over an arbitrary observed cluster state and
// judges the mode statements that reached the fake servers, in order.
//
//   H_C17_pass        general: every replica shape, pairwise interaction (≤2 / ≤3 replicas)
//   H_C17_shapes      the same function; registered with the wide shape / error-code / zone-layout / threshold-set parameters
//   H_C17_thresholds  the same with symbolic thresholds (FP-heavy: cvc5)
//   H_C17_zonecap     counting in the zone filter with up to 4 / 6 lagging replicas
//   H_C17_ratelimit   sequences of permanently broken replicas against the limiter
//   H_C17_master      the master's own branch
//
// Map iteration: the engine iterates maps in insertion order; replicas are
// inserted in index order and every per-replica attribute is drawn from the same
// domain independently, so all relative orders of attribute combinations are
// covered; only the coupling "name ↔ zone" is positional (param zone_layouts).

import (
	"time"

	nodestate "github.com/yandex/mysync/internal/app/node_state"
	"github.com/yandex/mysync/internal/config"
	"github.com/yandex/mysync/internal/mysql"
	"github.com/yandex/mysync/internal/verifnd"
)

// ---- host-name universe and the oracle's own zone table ----

var c17ZonePrefix = []string{"vla", "sas", "myt"}

// c17Name: host number i placed in zone z (two "-" and two "." so that first and
// last occurrence of a separator differ); z == len(c17ZonePrefix) is a name that
// contains no separator character at all.
func c17Name(z, i int) string {
	d := string(rune('0' + i))
	if z >= len(c17ZonePrefix) {
		return "plain" + d
	}
	return c17ZonePrefix[z] + "-" + d + "-db.y.net"
}

var c17Seps = []string{"-", ".", ""}

// c17Zone: the availability zone of c17Name(z, i) under separator kind sep,
// written down independently of getAvailabilityZone: the host-name prefix before
// the first separator; hosts without the separator (or with no separator
// configured) share the unnamed zone.
func c17Zone(sep, z, i int) string {
	if z >= len(c17ZonePrefix) {
		return "<unnamed>"
	}
	switch sep {
	case 0:
		return c17ZonePrefix[z]
	case 1:
		return c17ZonePrefix[z] + "-" + string(rune('0'+i)) + "-db"
	}
	return "<unnamed>"
}

// fixed layout used when zone_layouts=0: zone index of replica 1..6
var c17FixedZones = []int{0, 0, 1, 0, 1, 2}

type c17Host struct {
	name    string
	z, idx  int
	master  bool
	replica bool // counts as a replica of its zone (not a detached / primary-looking node)
	state   *nodestate.NodeState
	known   bool // replication lag reported
	lag     float64
	broken  bool // replication permanently broken (by the error-code table below)
	// resetup status, decided when the real code first reads it
	stQueried, stPresent bool
	stStatus             bool
	stNS                 int64
	startNS              int64
	denied               bool // the zone filter answered "no" for this host (witness only)
}

// error codes: {Last_SQL_Errno, Last_IO_Errno, permanently broken?}
var c17Errnos = [][3]int{
	{0, 0, 0},
	{1146, 0, 1},
	{0, 13114, 1},
	{1062, 2003, 0}, // duplicate key / cannot connect: repairable
	{1118, 0, 1},
	{0, 1236, 1},
}

var c17BrokenErrnos = []int{1, 2, 4, 5}

// c17DCS defers the choice of coordination-store content to the first read and
// watches updates of the limiter record.
type c17DCS struct {
	*verifDCS
	beforeGet func(p string)
	beforeSet func(p string, val any)
}

func (d c17DCS) Get(path string, dest any) error {
	d.beforeGet(verifNorm(path))
	return d.verifDCS.Get(path, dest)
}

func (d c17DCS) Set(path string, val any) error {
	d.beforeSet(verifNorm(path), val)
	return d.verifDCS.Set(path, val)
}

// c17Filter builds the real filter (NewOfflineModeFilter) on first use — so that
// paths that never consult it do not fork on the percentage and the separator —
// and records its refusals (for vacuity witnesses only).
type c17Filter struct {
	cfg    *config.Config
	f      OfflineModeFilter
	sep    *int
	nseps  int
	byName map[string]*c17Host
}

func (l *c17Filter) CanSetOffline(host string, cs map[string]*nodestate.NodeState, pending map[string]int) bool {
	if l.f == nil {
		l.f = NewOfflineModeFilter(l.cfg, verifLogger())
	}
	r := l.f.CanSetOffline(host, cs, pending)
	if !r {
		l.byName[host].denied = true
	}
	return r
}

type c17Act struct {
	host       string
	offline    bool
	limPresent bool  // limiter record present when the statement arrived …
	limNS      int64 // … and its value
	checks     int   // number of limiter comparisons (time.Since) made so far
	checkNS    int64 // the instant used by the latest one
	nowNS      int64 // clock reading when the statement arrived
	readAt     int   // number of comparisons made before the code's latest read of the limiter record (-1: none) …
	readThere  bool  // … whether the record existed then …
	readNS     int64 // … and its value
}

// c17Write: an update of the limiter record.
type c17Write struct {
	at       int  // number of limiter comparisons made before it
	acts     int  // number of mode statements issued before it
	wroteNow bool // it stored the then-current time
}

const c17MaxNS = int64(1) << 62

func c17Instant(label string) int64 {
	ns := verifnd.Int64(label)
	verifnd.Constrain(verifnd.And(ns >= 1, ns < c17MaxNS))
	return ns
}

func c17Seconds(label string) (time.Duration, int64) {
	k := verifnd.Int64(label)
	verifnd.Constrain(verifnd.And(k >= 0, k <= 1<<31))
	return time.Duration(k) * time.Second, k
}

const (
	c17General = iota
	c17ZoneCap
	c17RateLimit
	c17Master
)

func H_C17_pass()       { c17Run(c17General, verifnd.Param("max_replicas", 2), verifnd.Param("sym_thresholds", 0)) }
func H_C17_shapes()     { c17Run(c17General, verifnd.Param("max_replicas", 1), 0) }
func H_C17_thresholds() { c17Run(c17General, verifnd.Param("max_replicas", 1), 1) }
func H_C17_zonecap()    { c17Run(c17ZoneCap, verifnd.Param("max_replicas", 4), 0) }
func H_C17_ratelimit()  { c17Run(c17RateLimit, verifnd.Param("max_replicas", 3), 0) }
func H_C17_master()     { c17Run(c17Master, verifnd.Param("max_replicas", 1), 0) }

func c17Run(profile, maxReplicas, symThresholds int) {
	nrep := 1 + verifnd.Choose("replicas", maxReplicas)
	zones := verifnd.Param("zones", 2)
	plain := verifnd.Param("plain_hosts", 0)
	layouts := verifnd.Param("zone_layouts", 0)
	shapes := verifnd.Param("shapes", 2)
	errnoKinds := verifnd.Param("errno_kinds", 2)

	// ---- hosts ----
	master := &c17Host{name: c17Name(0, 0), z: 0, idx: 0, master: true}
	all := []*c17Host{master}
	var reps []*c17Host
	used := 1
	for i := 1; i <= nrep; i++ {
		z := 0
		if layouts == 0 {
			z = c17FixedZones[(i-1)%len(c17FixedZones)]
		} else if i == 1 {
			if plain > 0 && verifnd.Choose("zone.1", 2) == 1 {
				z = len(c17ZonePrefix)
			}
		} else {
			// every assignment up to renaming of zones (restricted growth), plus optionally a separator-less name
			k := used + 1
			if k > zones {
				k = zones
			}
			if k > len(c17ZonePrefix) {
				k = len(c17ZonePrefix)
			}
			opts := k
			if plain > 0 {
				opts++
			}
			z = verifnd.Choose("zone."+string(rune('0'+i)), opts)
			if z >= k {
				z = len(c17ZonePrefix)
			} else if z == used {
				used++
			}
		}
		h := &c17Host{name: c17Name(z, i), z: z, idx: i, replica: true}
		reps = append(reps, h)
		all = append(all, h)
	}
	names := make([]string, len(all))
	byName := map[string]*c17Host{}
	for i, h := range all {
		names[i] = h.name
		byName[h.name] = h
	}

	// ---- configuration ----
	cfg := verifConfig(master.name)
	if symThresholds == 1 {
		var enK, disK int64
		cfg.OfflineModeEnableLag, enK = c17Seconds("cfg.enable_lag.seconds")
		cfg.OfflineModeDisableLag, disK = c17Seconds("cfg.disable_lag.seconds")
		verifnd.Assume(disK <= enK)
	} else {
		switch verifnd.Choose("cfg.thresholds", verifnd.Param("threshold_sets", 1)) {
		case 0: // the defaults: 30 s / 24 h
		case 1: // no hysteresis band
			cfg.OfflineModeEnableLag, cfg.OfflineModeDisableLag = time.Minute, time.Minute
		case 2: // sub-second values
			cfg.OfflineModeEnableLag, cfg.OfflineModeDisableLag = 2500*time.Millisecond, 1500*time.Millisecond
		}
	}
	interval := verifnd.Int64("cfg.enable_interval.ns")
	verifnd.Constrain(verifnd.And(interval >= 0, interval < c17MaxNS/2))
	cfg.OfflineModeEnableInterval = time.Duration(interval)
	pct := verifnd.Int("cfg.max_offline_pct", -1, 101)
	cfg.OfflineModeMaxOfflinePct = pct
	enableS, disableS := cfg.OfflineModeEnableLag.Seconds(), cfg.OfflineModeDisableLag.Seconds()

	w := verifNewWorld(cfg, names, nil)
	// the separator is configuration: fixed before the pass starts (the code reads it on the
	// lag path, in the filter and — since e33f244 — on the broken-replica path)
	sep := verifnd.Choose("cfg.separator", verifnd.Param("separators", 3))
	cfg.OfflineModeAZSeparator = c17Seps[sep]
	w.app.offlineModeFilter = &c17Filter{cfg: cfg, sep: &sep, nseps: verifnd.Param("separators", 3), byName: byName}

	// ---- observed cluster state ----
	cs := map[string]*nodestate.NodeState{}
	master.state = &nodestate.NodeState{PingOk: true, IsMaster: true}
	switch profile {
	case c17ZoneCap: // writable master: the lag branch is open
	case c17RateLimit: // read-only master: only the limiter can take a replica offline
		master.state.IsReadOnly = true
	default:
		master.state.IsReadOnly = verifnd.Bool("master.ro")
	}
	// MySQL: super_read_only ⇒ read_only (read_only without super_read_only is what
	// keep_super_writable_on_critical_disk_usage or an operator produces)
	master.state.IsSuperReadOnly = verifnd.Bool("master.sro")
	verifnd.Assume(verifnd.Implies(master.state.IsSuperReadOnly, master.state.IsReadOnly))
	if profile == c17Master {
		master.state.IsOffline = verifnd.Bool("master.offline")
	}
	cs[master.name] = master.state
	for _, h := range reps {
		ns := &nodestate.NodeState{PingOk: true, IsReadOnly: true}
		shape, errno := 0, 0
		switch profile {
		case c17General, c17Master:
			ns.IsOffline = verifnd.Bool("offline." + h.name)
			shape = verifnd.Choose("shape."+h.name, shapes)
			if shape == 0 {
				errno = verifnd.Choose("errno."+h.name, errnoKinds)
			}
		case c17ZoneCap:
			// healthy replication; either online and reporting a lag, or already offline with unknown lag
			if verifnd.Choose("observed-offline."+h.name, 2) == 1 {
				ns.IsOffline = true
				shape = 1
			}
		case c17RateLimit:
			// every replica permanently broken and reporting a lag
			ns.IsOffline = verifnd.Bool("offline." + h.name)
			k := verifnd.Param("broken_errno_kinds", 1)
			if k > len(c17BrokenErrnos) {
				k = len(c17BrokenErrnos)
			}
			errno = c17BrokenErrnos[verifnd.Choose("errno."+h.name, k)]
		}
		switch shape {
		case 0: // replica reporting a lag
			h.known = true
			e := c17Errnos[errno]
			h.broken = e[2] == 1
			lag := new(float64)
			*lag = verifnd.Float("lag." + h.name)
			h.lag = *lag
			ns.SlaveState = &nodestate.SlaveState{MasterHost: master.name, ReplicationLag: lag, LastSQLErrno: e[0], LastIOErrno: e[1]}
		case 1: // replication configured, lag unknown (NULL Seconds_Behind_Master)
			ns.SlaveState = &nodestate.SlaveState{MasterHost: master.name}
		case 2: // reachable, but the replication status could not be read
		case 3: // unreachable host: still listed (and counted in its zone), never touched
			ns.PingOk = false
			ns.IsOffline = false
		case 4: // a node without replication configured (looks like a primary): not a replica of its zone
			ns.IsMaster = true
			ns.IsReadOnly = false
			h.replica = false
		}
		h.state = ns
		h.startNS = c17Instant("startup." + h.name)
		w.fleet.Servers[h.name].StartupNS = h.startNS
		w.fleet.Servers[h.name].Offline = ns.IsOffline
		cs[h.name] = ns
	}
	w.fleet.Servers[master.name].Offline = master.state.IsOffline

	// ---- coordination store: content chosen at first read ----
	marked, markQueried := false, false
	limQueried, limPresent := false, false
	var limNS int64
	var limWrites []c17Write
	var acts []c17Act
	readAt, readThere, readNS := -1, false, int64(0)
	onSet := func(p string, val any) {
		if p != pathLastShutdownNodeTime {
			return
		}
		wr := c17Write{at: len(verifnd.SinceNS), acts: len(acts)}
		if t, ok := val.(time.Time); ok {
			// the clock never runs backwards, so "now" at the update is no earlier than the preceding comparison
			wr.wroteNow = verifnd.UnixNano(t) == verifnd.ClockNS()
		}
		limWrites = append(limWrites, wr)
	}
	onGet := func(p string) {
		switch {
		case p == pathLastShutdownNodeTime:
			if !limQueried {
				limQueried = true
				if verifnd.Choose("limiter.recorded", 2) == 1 {
					limPresent = true
					limNS = c17Instant("limiter.ns")
					w.dcs.seed(pathLastShutdownNodeTime, verifnd.TimeAt(limNS))
				}
			}
			// what the code under test is about to read
			readAt, readThere, readNS = len(verifnd.SinceNS), false, 0
			if v, ok := w.dcs.peek(pathLastShutdownNodeTime); ok {
				readThere, readNS = true, verifnd.UnixNano(v.(time.Time))
			}
		case p == pathRecovery+"/"+master.name:
			if markQueried {
				return
			}
			markQueried = true
			if verifnd.Choose("master.recovery_marked", 2) == 1 {
				marked = true
				w.dcs.seed(p, nil)
			}
		default:
			for _, h := range reps {
				if p == pathResetupStatus+"/"+h.name && !h.stQueried {
					h.stQueried = true
					if profile != c17ZoneCap && verifnd.Choose("resetup.present."+h.name, 2) == 1 {
						h.stPresent = true
						h.stStatus = verifnd.Bool("resetup.status." + h.name)
						h.stNS = c17Instant("resetup.ns." + h.name)
						w.dcs.seed(p, mysql.ResetupStatus{Status: h.stStatus, UpdateTime: verifnd.TimeAt(h.stNS)})
					}
				}
			}
		}
	}
	w.app.appDCS = NewAppDCS(c17DCS{verifDCS: w.dcs, beforeGet: onGet, beforeSet: onSet}, cfg, verifLogger())

	// ---- record every mode statement together with the limiter bookkeeping at that moment ----
	w.fleet.Before = func(host, stmt string) {
		if stmt != "enable_offline_mode" && stmt != "disable_offline_mode" {
			return
		}
		a := c17Act{host: host, offline: stmt == "enable_offline_mode"}
		if v, ok := w.dcs.peek(pathLastShutdownNodeTime); ok {
			a.limPresent = true
			a.limNS = verifnd.UnixNano(v.(time.Time))
		}
		a.nowNS = verifnd.ClockNS()
		a.readAt, a.readThere, a.readNS = readAt, readThere, readNS
		a.checks = len(verifnd.SinceNS)
		if a.checks > 0 {
			a.checkNS = verifnd.SinceNS[a.checks-1]
		}
		acts = append(acts, a)
	}

	verifnd.ClockNS() // start the clock

	w.app.repairOfflineMode(cs, master.name)

	// ---- oracle ----
	masterWritable := verifnd.Not(master.state.IsReadOnly)
	prevPresent, prevNS, prevChecks := limPresent, limNS, 0
	lagJ := map[string]bool{} // replica → its first offline statement was justified by lag
	var order []*c17Host      // distinct replicas with an offline statement so far
	nstmt := map[string]int{}
	masterOnline := 0
	limited := 0
	usedWrite := make([]bool, len(limWrites))
	var strict []bool // the zone cap under the literal reading "counting every replica taken offline earlier in the pass" (asserted last)
	for ai, a := range acts {
		h := byName[a.host]
		nstmt[a.host]++
		if h.master {
			if a.offline {
				verifnd.Assert(false, "master.never-offline")
			} else {
				masterOnline++
			}
			continue
		}
		if !a.offline {
			// SetOnline(h) ⇒ lag(h) ≤ disable ∧ ¬broken ∧ status negative ∧ status time ≥ startup
			ok := false
			if h.known {
				ok = h.lag <= disableS
			}
			verifnd.Assert(ok, "online.lag-threshold")
			verifnd.Assert(!h.broken, "online.not-broken")
			verifnd.Assert(verifnd.And(h.stPresent, verifnd.Not(h.stStatus)), "online.status-negative")
			verifnd.Assert(verifnd.And(h.stPresent, h.stNS >= h.startNS), "online.status-fresh")
			verifnd.Reach("C17.online")
			continue
		}
		// SetOffline(h) on a replica
		zone := c17Zone(sep, h.z, h.idx)
		total, off := 0, 0
		for _, g := range reps {
			if !g.replica || c17Zone(sep, g.z, g.idx) != zone {
				continue
			}
			total++
			off = verifnd.IteInt(g.state.IsOffline, off+1, off)
		}
		earlierLag, earlierAll := 0, 0
		for _, g := range order {
			if g == h || c17Zone(sep, g.z, g.idx) != zone {
				continue
			}
			earlierAll++
			earlierLag = verifnd.IteInt(lagJ[g.name], earlierLag+1, earlierLag)
		}
		base := false
		if h.known {
			base = verifnd.And(h.lag > enableS, masterWritable)
		}
		// floor(100·x/total) ≤ pct  ⇔  100·x < (pct+1)·total
		capN := 100*(off+earlierLag+1) < (pct+1)*total // earlier = those taken offline for lag earlier in this pass
		capA := 100*(off+earlierAll+1) < (pct+1)*total // earlier = every replica of the zone taken offline earlier in this pass
		lj := verifnd.And(base, capN)
		ljA := verifnd.And(base, capA)
		// rate-limited action on a permanently broken replica: more than an interval has
		// elapsed since the last recorded action (including one recorded earlier in this
		// pass; no record at all = no earlier action), and the action itself is recorded:
		// before the next comparison (or the end of the pass) the record is set to the
		// then-current time. "Elapsed" is judged at the instant the code under test
		// compared (exactly its own term, which keeps the solver query trivial); without a
		// fresh comparison it is judged at the instant of the statement.
		bjGap, bjAdv := false, false
		if h.broken {
			bjGap = true
			if a.checks > prevChecks && a.readAt == a.checks-1 {
				// last recorded = what the record held when it was read for this comparison
				if a.readThere {
					bjGap = a.checkNS-a.readNS > interval
				}
			} else if prevPresent {
				// no fresh comparison: last recorded = the record as of the previous statement
				bjGap = a.nowNS-prevNS > interval
			}
			for wi, wr := range limWrites {
				// an update after the previous statement and before any newer comparison,
				// not already counted for an earlier statement
				if !usedWrite[wi] && wr.acts >= ai && wr.at == a.checks {
					bjAdv = wr.wroteNow
					usedWrite[wi] = true
					break
				}
			}
		}
		bj := verifnd.And(bjGap, bjAdv)
		if !h.broken {
			lagOK := false
			if h.known {
				lagOK = h.lag > enableS
			}
			verifnd.Assert(lagOK, "offline.lag.threshold")
			verifnd.Assert(masterWritable, "offline.lag.master-writable")
			verifnd.Assert(capN, "offline.lag.zone-cap")
			strict = append(strict, capA)
			verifnd.Reach("C17.offline.lag")
			if earlierAll > 0 {
				verifnd.Reach("C17.offline.lag.second-in-zone")
			}
		} else {
			// not justified by lag ⇒ a rate-limited action on a permanently broken replica
			verifnd.Assert(verifnd.Or(lj, bjGap), "offline.broken.rate-limit")
			verifnd.Assert(verifnd.Or(lj, bjAdv), "offline.broken.limiter-advanced")
			strict = append(strict, verifnd.Or(ljA, bj))
			verifnd.Reach("C17.offline.broken")
			if a.checks > prevChecks {
				limited++
			}
		}
		if _, seen := lagJ[h.name]; !seen {
			lagJ[h.name] = lj
			order = append(order, h)
		}
		prevPresent, prevNS, prevChecks = a.limPresent, a.limNS, a.checks
	}

	for _, h := range reps {
		if nstmt[h.name] > 0 && h.known && !h.broken {
			// disable < lag ≤ enable ∧ ¬broken ⇒ no mode statement
			verifnd.Assert(verifnd.Not(verifnd.And(h.lag > disableS, h.lag <= enableS)), "between.unchanged")
		}
		if h.denied {
			verifnd.Reach("C17.cap.denied")
			for _, g := range order {
				if g != h && c17Zone(sep, g.z, g.idx) == c17Zone(sep, h.z, h.idx) {
					verifnd.Reach("C17.cap.denied-after-earlier")
				}
			}
		}
		if h.stQueried && nstmt[h.name] == 0 {
			verifnd.Reach("C17.online.refused")
		}
	}
	// vacuity of the hysteresis band: a healthy first replica between the thresholds (one fork, first replica only)
	if r := reps[0]; profile == c17General && r.known && !r.broken && nstmt[r.name] == 0 {
		if verifnd.And(r.lag > disableS, r.lag <= enableS) {
			verifnd.Reach("C17.between")
		}
	}

	// master: SetOnline iff observed offline and not marked for recovery
	if markQueried {
		should := verifnd.And(master.state.IsOffline, !marked)
		verifnd.Assert(verifnd.Implies(should, masterOnline > 0), "master.kept-online")
		verifnd.Assert(verifnd.Implies(masterOnline > 0, should), "master.online-only-if")
		if marked {
			verifnd.Reach("C17.master.marked")
		}
	} else if masterOnline > 0 {
		// set online without consulting the marker: wrong whenever the marker is there
		verifnd.Assert(false, "master.online-only-if")
	} else {
		// the marker was not consulted and nothing was done: right (for the unmarked case) only if the master was observed online
		verifnd.Assert(verifnd.Not(master.state.IsOffline), "master.kept-online")
		if profile == c17Master {
			verifnd.Reach("C17.master.already-online")
		}
	}
	if masterOnline > 0 {
		verifnd.Reach("C17.master.online")
	}
	// vacuity of the limiter's refusal: with a read-only master only the limiter can act;
	// an online broken first replica left alone = the limiter said no
	if r := reps[0]; profile == c17RateLimit && r.broken && nstmt[r.name] == 0 {
		if !r.state.IsOffline { // already decided by the code under test on this path: no new fork
			verifnd.Reach("C17.offline.broken.rate-limited")
		}
	}
	if limited >= 2 {
		verifnd.Reach("C17.offline.broken.two-in-pass")
	}
	if limited >= 1 && limQueried && !limPresent {
		verifnd.Reach("C17.offline.broken.first-ever")
	}
	verifnd.Reach("C17.pass")
	// Last, so that a violation here does not restrict the models of the assertions above.
	for _, c := range strict {
		verifnd.Assert(c, "offline.lag.zone-cap.all-earlier")
	}
}
