package app

// C19 — replication optimisation never leaves untracked relaxed durability.
//
// The real Syncer / Controller (package optimization), the real
// OptimizationDCSAdapter / OptimizationClusterAdapter (package app/dcs) and the
// real *mysql.Node settings methods run on top of the fake fleet and the fake
// coordination store.

import (
	"context"
	"strings"
	"time"

	app_dcs "github.com/yandex/mysync/internal/app/dcs"
	nodestate "github.com/yandex/mysync/internal/app/node_state"
	"github.com/yandex/mysync/internal/app/optimization"
	"github.com/yandex/mysync/internal/config"
	"github.com/yandex/mysync/internal/mysql"
	"github.com/yandex/mysync/internal/verifnd"
)

const (
	verifC19Reg   = "optimization_nodes"
	verifC19Ghost = "gone" // registered in the optimisation registry, not a cluster host any more
)

// verifC19Registered lists the optimisation registry (harness side, no faults).
func verifC19Registered(w *verifWorld) map[string]bool {
	out := map[string]bool{}
	for p := range w.dcs.nodes {
		if strings.HasPrefix(p, verifC19Reg+"/") {
			out[p[len(verifC19Reg)+1:]] = true
		}
	}
	return out
}

// verifC19Neq: host's durability settings differ from those of the master server.
func verifC19Neq(w *verifWorld, master, host string) bool {
	s, m := w.fleet.Servers[host], w.fleet.Servers[master]
	return verifnd.Or(s.Flush != m.Flush, s.SyncBinlog != m.SyncBinlog)
}

// verifC19Guard installs the ordering oracle: whenever an entry of the
// optimisation registry has just been deleted, the host either is not a cluster
// host any more or carries the master's durability settings (allowSafe: or the
// fully durable fallback (1,1) that Disable uses when the master cannot be read).
func verifC19Guard(w *verifWorld, master, id string, allowSafe bool) {
	verifC19GuardF(w, master, func() string { return id }, allowSafe)
}

func verifC19GuardF(w *verifWorld, master string, id func() string, allowSafe bool) {
	w.dcs.Checkpoint = func(op, p string) {
		if op != "delete" || !strings.HasPrefix(p, verifC19Reg+"/") {
			return
		}
		h := p[len(verifC19Reg)+1:]
		if w.app.cluster.Get(h) == nil {
			verifnd.Reach("C19.dropped-non-cluster-host")
			return
		}
		ok := verifnd.Not(verifC19Neq(w, master, h))
		if allowSafe {
			ok = verifnd.Or(ok, verifC19Safe(w, h))
		}
		verifnd.Assert(ok, id())
	}
}

// verifC19Touched: hosts whose durability settings mysync has set (fleet log "host:stmt").
func verifC19Touched(w *verifWorld, from int) map[string]bool {
	out := map[string]bool{}
	for _, e := range w.fleet.Log[from:] {
		if i := strings.Index(e, ":"); i > 0 && (e[i+1:] == "set_sync_binlog" || e[i+1:] == "set_innodb_flush_log_at_trx_commit") {
			out[e[:i]] = true
		}
	}
	return out
}

// verifC19Safe: host runs with the fully durable settings (1,1) — never "relaxed".
func verifC19Safe(w *verifWorld, host string) bool {
	s := w.fleet.Servers[host]
	return verifnd.And(s.Flush == mysql.SafeReplicationSettings.InnodbFlushLogAtTrxCommit,
		s.SyncBinlog == mysql.SafeReplicationSettings.SyncBinlog)
}

// verifC19Marks: the default marks, or (sym_marks=1) symbolic whole-second marks with low <= high.
func verifC19Marks() (low, high time.Duration, lowS, highS float64) {
	if verifnd.Param("sym_marks", 0) == 0 {
		// the shipped defaults (config.DefaultConfig)
		low, high = 60*time.Second, 120*time.Second
		return low, high, low.Seconds(), high.Seconds()
	}
	kl := verifnd.Int64("cfg.low_mark.s")
	kh := verifnd.Int64("cfg.high_mark.s")
	verifnd.Assume(verifnd.And(verifnd.And(kl >= 0, kl <= kh), kh <= 1<<31))
	low, high = time.Duration(kl)*time.Second, time.Duration(kh)*time.Second
	return low, high, low.Seconds(), high.Seconds()
}

// verifC19SetSettings gives server h arbitrary durability settings.
func verifC19SetSettings(w *verifWorld, h string) {
	s := w.fleet.Servers[h]
	s.Flush = verifnd.Int("flush."+h, 0, 2)
	s.SyncBinlog = verifnd.Int("sync_binlog."+h, 0, 1<<32-1)
}

// H_C19_sync: one Syncer.Sync from an arbitrary registry / health-record situation.
//
// Cluster: master m and replicas r1..rN. The registry holds any subset of
// {m, r1..rN, gone} with status new / enabled. Every registered replica has an
// arbitrary health record: no replica state (optionally claiming to be a
// master), replica state without lag, or a lag anywhere relative to the two
// marks; its durability settings are arbitrary (the record shows the server's
// actual settings).
func H_C19_sync() {
	nrep := verifnd.Param("replicas", 2)
	faults := verifnd.Param("faults", 0)
	hosts := []string{"m"}
	for i := 0; i < nrep; i++ {
		hosts = append(hosts, "r"+string(rune('1'+i)))
	}
	cfg := verifConfig("m")
	low, high, lowS, _ := verifC19Marks()
	cfg.OptimizationConfig.LowReplicationMark, cfg.OptimizationConfig.HighReplicationMark = low, high
	w := verifNewWorld(cfg, hosts, nil)

	// master: settings arbitrary; its record may or may not carry them
	verifC19SetSettings(w, "m")
	ms := w.fleet.Servers["m"]
	cs := map[string]*nodestate.NodeState{}
	mrec := &nodestate.NodeState{PingOk: true, IsMaster: true}
	if verifnd.Choose("rec.m.settings", 2) == 1 {
		mrec.ReplicationSettings = &mysql.ReplicationSettings{InnodbFlushLogAtTrxCommit: ms.Flush, SyncBinlog: ms.SyncBinlog}
	}
	cs["m"] = mrec

	// registry
	statuses := []optimization.Status{optimization.StatusNew, optimization.StatusEnabled}
	regBefore := map[string]bool{}
	register := func(h string) bool {
		k := verifnd.Choose("registered."+h, 3)
		if k == 0 {
			return false
		}
		w.dcs.seed(verifC19Reg+"/"+h, optimization.DCSState{Status: statuses[k-1]})
		regBefore[h] = true
		return true
	}
	w.dcs.seed(verifC19Reg, "")
	if verifnd.Param("master_registered", 1) == 1 {
		register("m")
	}
	mustDrop := map[string]bool{} // replicas without a known lag or with a converged lag (condition may be symbolic)
	for _, h := range hosts[1:] {
		s := w.fleet.Servers[h]
		s.ReadOnly, s.SuperRO, s.IsReplica, s.Source, s.IORunning, s.SQLRunning = true, true, true, "m", true, true
		verifC19SetSettings(w, h)
		if !register(h) {
			// an unregistered replica: its record is not consulted
			continue
		}
		rec := &nodestate.NodeState{PingOk: true}
		switch verifnd.Choose("rec."+h, 3) {
		case 0: // no replica state (down, error, or reporting itself a master)
			rec.IsMaster = verifnd.Bool("rec." + h + ".is_master")
			mustDrop[h] = true
		case 1: // replica state without lag
			rec.SlaveState = &nodestate.SlaveState{MasterHost: "m"}
			rec.ReplicationSettings = &mysql.ReplicationSettings{InnodbFlushLogAtTrxCommit: s.Flush, SyncBinlog: s.SyncBinlog}
			mustDrop[h] = true
		default:
			lag := verifnd.Float("lag." + h)
			rec.SlaveState = &nodestate.SlaveState{MasterHost: "m", ReplicationLag: &lag}
			rec.ReplicationSettings = &mysql.ReplicationSettings{InnodbFlushLogAtTrxCommit: s.Flush, SyncBinlog: s.SyncBinlog}
			mustDrop[h] = lag < lowS
		}
		cs[h] = rec
	}
	if verifnd.Param("ghost", 1) == 1 {
		register(verifC19Ghost)
	}

	w.fleet.FaultBudget, w.fleet.FaultKinds = faults, 2
	w.dcs.FaultBudget = faults
	verifC19Guard(w, "m", "sync.restore-before-deregister", false)
	// replicas under mysync's control that carry settings different from the master's, before the sync
	relaxedBefore := 0
	for _, h := range hosts[1:] {
		if regBefore[h] {
			relaxedBefore = verifnd.IteInt(verifC19Neq(w, "m", h), relaxedBefore+1, relaxedBefore)
		}
	}

	adapter := app_dcs.NewOptimizationClusterAdapter(w.app.cluster, cs, "m")
	err := w.app.optSyncer.Sync(adapter)

	regAfter := verifC19Registered(w)
	touched := verifC19Touched(w, 0)
	faulted := len(w.fleet.FaultsUsed) > 0 || w.dcs.FaultBudget < faults
	if faulted {
		// ordering oracle (checked at every registry delete above), and: a failing call may leave
		// replicas as relaxed as they were, but the sync never relaxes one more replica while
		// another one under its control is still relaxed
		verifnd.Reach("C19.sync.faulted")
		after := 0
		for _, h := range hosts[1:] {
			if regBefore[h] || regAfter[h] || touched[h] {
				after = verifnd.IteInt(verifC19Neq(w, "m", h), after+1, after)
			}
		}
		verifnd.Assert(verifnd.Or(after <= 1, after <= relaxedBefore), "sync.faulted.no-additional-relaxed")
		return
	}
	if err == nil {
		verifnd.Reach("C19.sync.ok")
	}

	// at most one replica under mysync's control is left with settings != master's
	relaxed := 0
	restoredSome := false
	for _, h := range hosts[1:] {
		if regAfter[h] || touched[h] {
			relaxed = verifnd.IteInt(verifC19Neq(w, "m", h), relaxed+1, relaxed)
		}
		if regBefore[h] {
			// no known lag / converged  ==>  restored to the master's settings and dropped
			verifnd.Assert(verifnd.Implies(mustDrop[h], verifnd.And(!regAfter[h], verifnd.Not(verifC19Neq(w, "m", h)))),
				"sync.converged-restored-dropped")
			if !regAfter[h] {
				restoredSome = true
			}
		}
	}
	verifnd.Assert(relaxed <= 1, "sync.at-most-one-relaxed")
	for _, h := range hosts[1:] {
		if !touched[h] || !regAfter[h] {
			continue
		}
		sb := w.fleet.Servers[h].SyncBinlog
		if verifnd.IsConcrete(sb) && sb == mysql.OptimalSyncBinlogValue {
			verifnd.Reach("C19.sync.optimised-one") // OptimizeReplication on the one kept host
		} else {
			verifnd.Reach("C19.sync.stopped-kept") // surplus optimising host: restored, stays registered
		}
	}
	if restoredSome {
		verifnd.Reach("C19.sync.restored-dropped")
	}
	if len(w.fleet.Log) == 0 && len(w.dcs.Writes) == 0 {
		verifnd.Reach("C19.sync.noop")
	}
	if regBefore[verifC19Ghost] {
		verifnd.Assert(!regAfter[verifC19Ghost], "sync.converged-restored-dropped")
	}
}

// H_C19_sync_faults: the same step with failing / lost-reply settings and registry calls.
func H_C19_sync_faults() { H_C19_sync() }

// ---------------------------------------------------------------------------
// Controller: Enable / Disable / DisableAll

// verifC19Fleet: master m and replicas r1..rN with arbitrary durability settings.
func verifC19Fleet(cfg *config.Config, nrep int) (*verifWorld, []string) {
	hosts := []string{"m"}
	for i := 0; i < nrep; i++ {
		hosts = append(hosts, "r"+string(rune('1'+i)))
	}
	w := verifNewWorld(cfg, hosts, nil)
	verifHealthy(w, "m")
	for _, h := range hosts {
		verifC19SetSettings(w, h)
	}
	return w, hosts
}

// verifC19Registry: an arbitrary registry over the given hosts (status new / enabled when withStatus).
func verifC19Registry(w *verifWorld, hosts []string, withStatus bool) map[string]bool {
	statuses := []optimization.Status{optimization.StatusNew, optimization.StatusEnabled}
	reg := map[string]bool{}
	w.dcs.seed(verifC19Reg, "")
	for _, h := range hosts {
		n := 2
		if withStatus {
			n = 3
		}
		if k := verifnd.Choose("registered."+h, n); k > 0 {
			w.dcs.seed(verifC19Reg+"/"+h, optimization.DCSState{Status: statuses[k-1]})
			reg[h] = true
		}
	}
	return reg
}

// H_C19_disable: one Controller.Disable / DisableAll / Enable from an arbitrary
// registry and arbitrary settings, optionally with failing calls.
func H_C19_disable() {
	faults := verifnd.Param("faults", 0)
	w, hosts := verifC19Fleet(verifConfig("m"), verifnd.Param("replicas", 2))
	regHosts := append([]string{}, hosts...)
	if verifnd.Param("ghost", 1) == 1 {
		regHosts = append(regHosts, verifC19Ghost)
	}
	regBefore := verifC19Registry(w, regHosts, false)
	w.fleet.FaultBudget, w.fleet.FaultKinds = faults, 2
	w.dcs.FaultBudget = faults
	verifC19Guard(w, "m", "disable.restore-before-deregister", true)

	mnode := w.app.cluster.Get("m")
	var candidates []string
	var err error
	switch verifnd.Choose("op", 3) {
	case 0:
		candidates = []string{"r1"}
		err = w.app.optController.Disable(mnode, w.app.cluster.Get("r1"))
		verifnd.Reach("C19.disable.one")
	case 1:
		// the pre-switchover shut-off: every active node (here: all, or all but the master)
		candidates = hosts[verifnd.Choose("candidates.from", 2):]
		err = w.app.stopActiveNodeOptimization("m", candidates)
		verifnd.Reach("C19.disable.all")
	default:
		err = w.app.optController.Enable(w.app.cluster.Get("r1"))
		// registering drops nobody (guard above)
		if err == nil && verifC19Registered(w)["r1"] && len(w.fleet.Log) == 0 {
			verifnd.Reach("C19.enable")
		}
		return
	}
	regAfter := verifC19Registered(w)
	faulted := len(w.fleet.FaultsUsed) > 0 || w.dcs.FaultBudget < faults
	if faulted {
		verifnd.Reach("C19.disable.faulted")
	}
	if err != nil {
		verifnd.Reach("C19.disable.error")
		return
	}
	// success (with or without faults) means: switched off on every candidate
	for _, h := range candidates {
		verifnd.Assert(!regAfter[h], "disable.ok-means-off")
		if regBefore[h] && !faulted {
			verifnd.Assert(verifnd.Not(verifC19Neq(w, "m", h)), "disable.ok-means-off")
			verifnd.Reach("C19.disable.restored")
		}
	}
}

// H_C19_disable_faults: the same with failing / lost-reply settings and registry calls.
func H_C19_disable_faults() { H_C19_disable() }

// ---------------------------------------------------------------------------
// Environment of Controller.Wait and of the turbo phase's syncer goroutine.
//
// Wait's ticker (verifnd.NewTicker) and context are channels fed by this model:
// before every select of Wait exactly one event is made ready — a tick, or the
// deadline — chosen by a labelled Choose. The syncer goroutine started by
// optimizeReplicaWithSmallestLag (startSyncerGoroutine is intercepted) is a
// coroutine: at every scheduling point — each tick of Wait, and once after Wait
// returned (a Sync that was already in flight when the phase was cancelled) —
// it may have run one whole Syncer.Sync.

type verifC19Env struct {
	ticks, maxTicks int
	syncs, maxSyncs int
	ticker          chan time.Time
	done            chan struct{}
	inWait, inSync  bool
	waits           int
	deadline        bool
	syncer          func()
}

type verifC19Ctx struct {
	context.Context
	done chan struct{}
}

func (c *verifC19Ctx) Done() <-chan struct{} { return c.done }

func (e *verifC19Env) next(tickOnly bool) {
	if e.ticks < e.maxTicks && (tickOnly || verifnd.Choose("wait.event", 2) == 0) {
		e.ticks++
		e.ticker <- time.Time{}
		verifnd.Event("wait: next event = tick")
		return
	}
	close(e.done)
	e.done = nil
	e.deadline = true
	verifnd.Event("wait: next event = deadline")
}

func (e *verifC19Env) sched(at string) {
	if e.syncer == nil || e.syncs >= e.maxSyncs {
		return
	}
	if verifnd.Choose("syncer.runs."+at, 2) == 1 {
		e.syncs++
		verifnd.Event("syncer goroutine: Sync (" + at + ")")
		e.inSync = true
		e.syncer()
		e.inSync = false
	}
}

// verifC19DCS interposes on the controller's registry access: the scheduling point of a tick.
type verifC19DCS struct {
	optimization.DCS
	env *verifC19Env
}

func (d *verifC19DCS) GetState(hostname string) (*optimization.DCSState, error) {
	e := d.env
	if e.inWait {
		e.sched("tick")
	}
	st, err := d.DCS.GetState(hostname)
	if e.inWait && e.done != nil {
		// what Wait's next select will find ready. When the answer ends the waiting
		// (no entry / status not enabled) the choice is immaterial: a tick is provided
		// without forking, so that a Wait that does go on still finds a ready case.
		e.next(err == nil && (st == nil || st.Status != optimization.StatusEnabled))
	}
	return st, err
}

// verifC19Ctl interposes on App.optController: Wait gets the model's context and ticker.
type verifC19Ctl struct {
	OptimizationController
	env *verifC19Env
}

func (c *verifC19Ctl) Wait(ctx context.Context, node optimization.Node) error {
	e := c.env
	e.done = make(chan struct{})
	e.inWait = true
	e.waits++
	verifnd.OnNewTicker = func(ch chan time.Time) {
		verifnd.OnNewTicker = nil
		e.ticker = ch
		e.next(false)
	}
	err := c.OptimizationController.Wait(&verifC19Ctx{ctx, e.done}, node)
	e.inWait = false
	verifnd.OnNewTicker = nil
	e.sched("in-flight")
	e.syncer = nil // the phase's context is cancelled: no further ticks are served
	return err
}

// verifC19InstallEnv rebuilds the optimisation module exactly as
// initializeOptimizationModule does, with the two interpositions above.
func verifC19InstallEnv(w *verifWorld) *verifC19Env {
	e := &verifC19Env{maxTicks: verifnd.Param("ticks", 2), maxSyncs: verifnd.Param("syncs", 2)}
	adapter := app_dcs.NewOptimizationDCSAdapter(w.dcs)
	w.app.optSyncer = optimization.NewSyncer(w.app.logger, w.cfg.OptimizationConfig, adapter)
	w.app.optController = &verifC19Ctl{
		optimization.NewController(w.cfg.OptimizationConfig, w.app.logger, &verifC19DCS{adapter, e}, 3*time.Second), e}
	VerifHook_App_startSyncerGoroutine = func(app *App, ctx context.Context, ticker *time.Ticker, cluster optimization.Cluster) {
		verifnd.Event("syncer goroutine started")
		e.syncer = func() {
			if err := app.optSyncer.Sync(cluster); err != nil {
				verifnd.Event("syncer goroutine: sync error")
			}
		}
	}
	return e
}

// H_C19_wait: Controller.Wait on a replica whose registry entry is absent / new /
// enabled, with an arbitrary (possibly unknown) lag and arbitrary settings.
func H_C19_wait() {
	faults := verifnd.Param("faults", 0)
	w, _ := verifC19Fleet(verifConfig("m"), 1)
	verifC19InstallEnv(w)
	verifC19Registry(w, []string{"r1"}, true)
	s := w.fleet.Servers["r1"]
	s.LagValid = verifnd.Bool("lag.valid.r1")
	s.Lag = verifnd.Float("lag.r1")
	w.fleet.FaultBudget, w.fleet.FaultKinds = faults, 1
	w.dcs.FaultBudget = faults
	verifC19Guard(w, "m", "wait.restore-before-deregister", false)

	err := w.app.optController.Wait(context.Background(), w.app.cluster.Get("r1"))
	if err == nil {
		verifnd.Reach("C19.wait.complete")
		if len(w.dcs.Writes) > 0 {
			verifnd.Reach("C19.wait.dropped")
		}
	} else {
		verifnd.Reach("C19.wait.gave-up")
	}
}

// ---------------------------------------------------------------------------
// Switchover link

type verifC19Link struct {
	w          *verifWorld
	master     string
	candidates []string        // the nodes performSwitchover freezes (and chooses the new master from)
	regBefore  map[string]bool // registered when the switchover started
	logFrom    int
	frozen     bool
	promoted   []string
}

// carries: h has relaxed settings (neither the master's nor the fully durable
// (1,1)) that are mysync's doing — h was in the registry when the procedure
// started, or mysync set its settings during it.
func (c *verifC19Link) carries(h string) bool {
	if !c.regBefore[h] && !verifC19Touched(c.w, c.logFrom)[h] {
		return false
	}
	return verifnd.And(verifC19Neq(c.w, c.master, h), verifnd.Not(verifC19Safe(c.w, h)))
}

func (c *verifC19Link) before(host, stmt string) {
	switch stmt {
	case "set_innodb_flush_log_at_trx_commit", "set_sync_binlog":
		return
	case "reset_slave_all", "reset_replica_all":
		// promotion of host
		c.promoted = append(c.promoted, host)
		verifnd.Fact("promoted", host)
		verifnd.Reach("C19.link.promotion")
		verifnd.Assert(!verifC19Registered(c.w)[host], "promote.not-registered")
		verifnd.Assert(verifnd.Not(c.carries(host)), "promote.not-relaxed")
	}
	if c.frozen {
		return
	}
	// the first freeze statement (read-only / offline / stop replication) of the procedure
	c.frozen = true
	c.w.fleet.FaultBudget, c.w.dcs.FaultBudget = 0, 0 // failing calls are injected in the prefix up to here only
	verifnd.Event("first freeze statement: " + host + ":" + stmt)
	verifnd.Reach("C19.link.freeze")
	reg := verifC19Registered(c.w)
	for _, h := range c.candidates {
		verifnd.Assert(!reg[h], "freeze.candidates-deregistered")
		verifnd.Assert(verifnd.Not(c.carries(h)), "freeze.phase-ended-restored")
	}
}

// verifC19LinkRun: the real performSwitchover on a healthy cluster m, r1..rN with an
// arbitrary optimisation registry and arbitrary durability settings; the real
// stopActiveNodeOptimization, optimizationPhase, optimizeReplicaWithSmallestLag,
// chooseReplicaToOptimize, Controller.Wait and (as a coroutine) the turbo phase's
// Syncer.Sync. updateActiveNodes (C04) is intercepted.
//
// turbo=false: the requests without a speed-up phase (automatic failover with a
// live / dead old master, manual switchover without semi-sync).
// turbo=true: manual switchovers with semi-sync, i.e. with the speed-up phase.
func verifC19LinkRun(turbo bool) {
	faults := verifnd.Param("faults", 0)
	cfg := verifConfig("m")
	cfg.ReplicationConvergenceTimeoutSwitchover = 300 * time.Second
	request := 0
	if turbo {
		request = verifnd.Choose("request", 2)
	} else {
		request = 2 + verifnd.Choose("request", 3)
	}
	cfg.SemiSync = request != 4 // the speed-up phase exists with semi-sync only
	verifnd.MaxSleeps = verifnd.Param("polls", 2)
	if verifnd.Param("sym_clock", 0) == 0 {
		verifnd.ClockFreeze(true) // nothing in C19 depends on the clock: one arbitrary instant
	}
	w, hosts := verifC19Fleet(cfg, verifnd.Param("replicas", 2))
	env := verifC19InstallEnv(w)
	w.syncGTIDOwners()
	c := &verifC19Link{w: w, master: "m"}
	// registry when the procedure starts: any subset of the hosts
	regHosts := hosts
	if verifnd.Param("master_registered", 1) == 0 {
		regHosts = hosts[1:]
	}
	c.regBefore = verifC19Registry(w, regHosts, verifnd.Param("reg_status", 0) == 1)

	sw := &Switchover{InitiatedBy: "op", InitiatedAt: verifnd.Now()}
	c.candidates = hosts
	// lag of a replica: below the low mark, between the marks, above the high mark (concrete
	// representatives; the classification itself is decided symbolically in H_C19_sync).
	// Only lags that the procedure looks at are varied.
	lags := []float64{30, 90, 500}
	if verifnd.Param("lag_classes", 3) >= 5 {
		lags = []float64{30, 90, 500, 60, 120} // plus the marks themselves
	}
	lagClass := func(h string) { w.fleet.Servers[h].Lag = lags[verifnd.Choose("lag.class."+h, len(lags))] }
	switch request {
	case 0: // manual switchover to a chosen replica
		sw.To, sw.Cause, sw.MasterTransition = "r1", CauseManual, SwitchoverTransition
		lagClass("r1")
	case 1: // manual switchover away from the master: the speed-up phase picks the replica
		sw.From, sw.Cause, sw.MasterTransition = "m", CauseManual, SwitchoverTransition
		for _, h := range hosts[1:] {
			lagClass(h)
		}
	case 2: // automatic failover: the old master is left out of the procedure
		sw.From, sw.Cause, sw.MasterTransition = "m", CauseAuto, FailoverTransition
		c.candidates = hosts[1:]
	case 3: // automatic failover from a dead master (its settings cannot be read: fallback (1,1))
		sw.From, sw.Cause, sw.MasterTransition = "m", CauseAuto, FailoverTransition
		c.candidates = hosts[1:]
		w.fleet.Servers["m"].Alive = false
		verifnd.Reach("C19.link.dead-master")
	default: // manual switchover without semi-sync (no speed-up phase)
		sw.To, sw.Cause, sw.MasterTransition = "r1", CauseManual, SwitchoverTransition
	}
	w.dcs.seed(pathCurrentSwitch, sw)
	cs := w.observe()

	VerifHook_App_updateActiveNodes = func(app *App, clusterState, clusterStateDcs map[string]*nodestate.NodeState, oldActiveNodes []string, master string) error {
		verifnd.Event("updateActiveNodes(" + master + ")")
		return nil
	}
	w.fleet.FaultBudget, w.fleet.FaultKinds = faults, 2
	w.dcs.FaultBudget = faults
	verifC19GuardF(w, "m", func() string {
		if env.inSync {
			return "sync.restore-before-deregister" // the speed-up phase's syncer goroutine
		}
		return "disable.restore-before-deregister" // stopActiveNodeOptimization (or Wait)
	}, true)
	c.logFrom = len(w.fleet.Log)
	w.fleet.Before = c.before

	err := w.app.performSwitchover(cs, append([]string{}, hosts...), sw, "m")

	if env.waits > 0 {
		verifnd.Reach("C19.link.turbo-phase")
		if env.deadline {
			verifnd.Reach("C19.link.turbo-deadline")
		}
		if env.syncs > 0 {
			verifnd.Reach("C19.link.turbo-syncer-ran")
		}
	}
	if err == nil {
		verifnd.Reach("C19.link.success")
	} else {
		verifnd.Reach("C19.link.failed")
		if !c.frozen {
			verifnd.Reach("C19.link.refused-before-freeze")
		}
	}
}

// H_C19_link_shutoff: switchovers / failovers without a speed-up phase — optimisation is
// switched off (restored, deregistered) on every candidate before the first freeze statement.
func H_C19_link_shutoff() { verifC19LinkRun(false) }

// H_C19_link_shutoff_faults: the same with failing / lost-reply calls before the freeze.
func H_C19_link_shutoff_faults() { verifC19LinkRun(false) }

// H_C19_link_turbo: manual switchovers with the speed-up phase.
func H_C19_link_turbo() { verifC19LinkRun(true) }
