package app

// C05 — automatic failover is filed only when every gate is open.
//
// H_C05_manager_iteration (and its _switchover / _faults variants): one whole
// iteration of the real stateManager — with the real approveFailover,
// IssueFailover, getCurrentMaster, count* helpers, CheckFailoverQuorum, Timings,
// checkMasterVisible/checkQuorum, maintenance handling, timing tracker and
// appDCS — from an arbitrary pre-state of the coordination store, an arbitrary
// manager's view of the cluster and an arbitrary failure timer under the
// inductive invariant I5. getClusterStateFromDB is intercepted (arbitrary view);
// performSwitchover, repairOfflineMode, repairCluster, updateActiveNodes and
// optSyncer.Sync are event-recording stubs (other properties' subjects).
//
// H_C05_approve: the real approveFailover alone over the full product of
// replica states × published lists (the dimensions the iteration harness keeps
// small), under the caller's precondition established by the iteration harness.
//
// The pre-state of the store is drawn lazily, on first access (verifDCS.Lazy):
// what an iteration never looks at stays arbitrary without multiplying paths.
// Time passes only at chosen environment calls (verifnd.ClockFrozen).

import (
	"time"

	nodestate "github.com/yandex/mysync/internal/app/node_state"
	"github.com/yandex/mysync/internal/app/optimization"
	"github.com/yandex/mysync/internal/mysql"
	"github.com/yandex/mysync/internal/verifnd"
)

type verifC05Syncer struct{ calls *[]string }

func (s verifC05Syncer) Sync(c optimization.Cluster) error {
	*s.calls = append(*s.calls, "optSyncer.Sync")
	verifnd.Event("stub optSyncer.Sync")
	return nil
}

const (
	verifC05KindDead    = 0 // manager's ping failed, nothing else known
	verifC05KindRunning = 1 // reachable replica, both threads running
	verifC05KindStopped = 2 // reachable replica, replication not running / broken
	verifC05KindNoRepl  = 3 // reachable, no replication configured (looks like a master)
	verifC05KindLostRun = 4 // replica status was read, then the re-ping failed
)

// kinds of the first two replicas for the small "profiles" menu
var verifC05Profiles = [][2]int{
	{verifC05KindRunning, verifC05KindDead},
	{verifC05KindRunning, verifC05KindRunning},
	{verifC05KindStopped, verifC05KindDead},
	{verifC05KindDead, verifC05KindDead},
	{verifC05KindRunning, verifC05KindStopped},
	{verifC05KindStopped, verifC05KindStopped},
}

// H_C05_manager_iteration: fault-free coordination store, manager_switchover off.
func H_C05_manager_iteration() { verifC05(0) }

// H_C05_manager_switchover: the same step with manager_switchover enabled
// (checkMasterVisible / checkQuorum in front of everything).
func H_C05_manager_switchover() { verifC05(1) }

// H_C05_manager_iteration_faults: the same step with one failing read of the
// coordination store (k = 1 on DCS reads).
func H_C05_manager_iteration_faults() { verifC05(2) }

// H_C05_approve: approveFailover alone, rich replica states × lists.
func H_C05_approve() { verifC05(3) }

func verifC05(variant int) {
	// quick-tier defaults per entry:        iteration, switchover, faults, approve
	nHA := verifnd.Param("hosts", 3)
	nCasc := verifnd.Param("cascade", []int{0, 0, 0, 1}[variant])
	nKinds := verifnd.Param("kinds", 3)
	nLists := verifnd.Param("lists", []int{3, 1, 1, 3}[variant])       // 0: every subset of the HA hosts / none
	nProfiles := verifnd.Param("profiles", []int{4, 2, 2, 6}[variant]) // 0: every combination of kinds
	masterAbsent := verifnd.Param("master_absent", []int{1, 0, 0, 0}[variant])
	races := verifnd.Param("races", []int{1, 0, 0, 0}[variant])
	lim := int64(1) << 62
	// time passes only where the harness says so (at the environment calls below)
	verifnd.ClockFrozen = true
	advance := func() {
		verifnd.ClockFrozen = false
		verifnd.Now()
		verifnd.ClockFrozen = true
	}

	// ---- configuration switches ----
	cfg := verifConfig("h1")
	cfg.Failover = verifnd.Bool("cfg.failover")
	cfg.ResetupCrashedHosts = verifnd.Bool("cfg.resetup_crashed_hosts")
	cfg.SemiSync = verifnd.Bool("cfg.semisync")
	cfgW := verifnd.Int("cfg.wait_slave_count", 0, 3)
	cfg.RplSemiSyncMasterWaitForSlaveCount = cfgW
	delay := verifnd.Int64("cfg.failover_delay")
	cooldown := verifnd.Int64("cfg.failover_cooldown")
	verifnd.Constrain(verifnd.And(verifnd.And(delay > -lim, delay < lim), verifnd.And(cooldown > -lim, cooldown < lim)))
	cfg.FailoverDelay = time.Duration(delay)
	cfg.FailoverCooldown = time.Duration(cooldown)
	cfg.ManagerSwitchover = variant == 1

	// ---- hosts: the manager runs on h1; m is the host recorded as master ----
	ha := []string{}
	for i := 0; i < nHA; i++ {
		ha = append(ha, "h"+string(rune('1'+i)))
	}
	m := "h2"
	if verifnd.Choose("master.host", verifnd.Param("master_choices", 1)) == 1 {
		m = "h1"
	}
	cascade := map[string]string{}
	if nCasc > 0 {
		cascade["c1"] = m
	}
	w := verifNewWorld(cfg, ha, cascade)
	all := append(append([]string{}, w.ha...), w.casc...)
	isCasc := map[string]bool{}
	for _, h := range w.casc {
		isCasc[h] = true
	}
	var replicas []string // HA hosts other than m
	for _, h := range w.ha {
		if h != m {
			replicas = append(replicas, h)
		}
	}
	t0 := verifnd.ClockNS()

	// ---- stubs for the heavy callees ----
	var stubs []string
	w.app.optSyncer = verifC05Syncer{&stubs}
	VerifHook_App_performSwitchover = func(app *App, clusterState map[string]*nodestate.NodeState, activeNodes []string, switchover *Switchover, oldMaster string) error {
		stubs = append(stubs, "performSwitchover")
		verifnd.Event("stub performSwitchover")
		return nil
	}
	VerifHook_App_repairOfflineMode = func(app *App, clusterState map[string]*nodestate.NodeState, master string) {
		stubs = append(stubs, "repairOfflineMode")
		verifnd.Event("stub repairOfflineMode")
	}
	VerifHook_App_repairCluster = func(app *App, clusterState, clusterStateDcs map[string]*nodestate.NodeState, master string) {
		stubs = append(stubs, "repairCluster")
		verifnd.Event("stub repairCluster")
	}
	VerifHook_App_updateActiveNodes = func(app *App, clusterState, clusterStateDcs map[string]*nodestate.NodeState, oldActiveNodes []string, master string) error {
		stubs = append(stubs, "updateActiveNodes")
		verifnd.Event("stub updateActiveNodes")
		return nil
	}

	// ---- the manager's view of the cluster (arbitrary) ----
	view := map[string]*nodestate.NodeState{}
	ping := map[string]bool{} // PingOk in the view (symbolic for the recorded master)
	repl := map[string]bool{} // has replica status
	runs := map[string]bool{} // replication running
	for _, h := range all {
		view[h] = &nodestate.NodeState{IsCascade: isCasc[h]}
	}
	ping[m] = verifnd.Bool("view.ping." + m)
	view[m].PingOk = ping[m]
	view[m].IsMaster = verifnd.Bool("view.is_master." + m)
	setKind := func(h string, k int) {
		ns := view[h]
		switch k {
		case verifC05KindRunning:
			ping[h], repl[h], runs[h] = true, true, true
			ns.SlaveState = &nodestate.SlaveState{MasterHost: m, ReplicationState: mysql.ReplicationRunning}
		case verifC05KindStopped:
			ping[h], repl[h] = true, true
			st := mysql.ReplicationStopped
			if verifnd.Choose("view.repl_error."+h, verifnd.Param("repl_error", 1)) == 1 {
				st = mysql.ReplicationError
			}
			ns.SlaveState = &nodestate.SlaveState{MasterHost: m, ReplicationState: st}
		case verifC05KindNoRepl:
			ping[h] = true
			ns.IsMaster = true
		case verifC05KindLostRun:
			repl[h], runs[h] = true, true
			ns.SlaveState = &nodestate.SlaveState{MasterHost: m, ReplicationState: mysql.ReplicationRunning}
		}
		ns.PingOk = ping[h]
	}
	kindsDone := false
	resolveKinds := func() {
		if kindsDone {
			return
		}
		kindsDone = true
		// the recorded master as the manager sees it: optionally still configured as a replica
		switch verifnd.Choose("view.kind."+m, verifnd.Param("master_kinds", 1)) {
		case 1:
			repl[m], runs[m] = true, true
			view[m].SlaveState = &nodestate.SlaveState{MasterHost: "h3", ReplicationState: mysql.ReplicationRunning}
		case 2:
			repl[m] = true
			view[m].SlaveState = &nodestate.SlaveState{MasterHost: "h3", ReplicationState: mysql.ReplicationStopped}
		}
		rest := replicas
		if nProfiles > 0 && len(replicas) >= 2 {
			p := verifC05Profiles[verifnd.Choose("view.profile", nProfiles)]
			setKind(replicas[0], p[0])
			setKind(replicas[1], p[1])
			rest = replicas[2:]
		}
		for _, h := range rest {
			setKind(h, verifnd.Choose("view.kind."+h, nKinds))
		}
		for _, h := range w.casc {
			setKind(h, verifnd.Choose("view.kind."+h, 2)) // dead / running
		}
	}
	viewCalls := 0
	VerifHook_App_getClusterStateFromDB = func(app *App) map[string]*nodestate.NodeState {
		viewCalls++
		verifnd.Event("stub getClusterStateFromDB")
		if viewCalls > 1 || cfg.ManagerSwitchover {
			resolveKinds()
		}
		return view
	}
	if variant == 1 {
		// the retry ping of checkMasterVisible goes to the fleet
		w.fleet.Servers[m].Alive = verifnd.Bool("fleet.alive." + m)
	}

	// ---- health records: arbitrary; the recorded master's may be missing / carry a daemon state ----
	recs := map[string]*nodestate.NodeState{}
	recPing := map[string]bool{}
	recFSRO := map[string]bool{}
	recCrash := map[string]bool{}
	for _, h := range all {
		ns := &nodestate.NodeState{IsCascade: isCasc[h]}
		recs[h] = ns
		k := 1
		if h == m {
			k = verifnd.Choose("health."+h, 3)
		}
		if k == 0 {
			continue // missing: read as the zero NodeState
		}
		recPing[h] = verifnd.Bool("health.ping." + h)
		recFSRO[h] = verifnd.Bool("health.fsro." + h)
		ns.PingOk, ns.IsFileSystemReadonly = recPing[h], recFSRO[h]
		ns.IsMaster = h == m
		if k == 2 {
			recCrash[h] = verifnd.Bool("health.crash_recovery." + h)
			ns.DaemonState = &nodestate.DaemonState{CrashRecovery: recCrash[h]}
		}
		w.dcs.seed("health/"+h, ns)
	}

	// ---- lazily drawn pre-state of the coordination store and of the failure timer ----
	resolved := map[string]bool{}
	masterKind := -1 // 0 recorded, 1 absent
	maintKind := -1  // 0 absent, 1 light, 2 full
	var maintLeave bool
	switchKind := -1 // 0 absent, 1 pending switchover (manual), 2 pending failover (auto)
	lastKind := -1   // 0 absent, 1 auto finished, 2 manual finished, 3 without result
	var lastFinished int64
	var list []string
	timerHost := ""
	timerSet := false
	var timerPre int64
	var tEval, tCool int64 // clock readings used by the delay / cooldown comparisons
	resolveTimer := func(host string) {
		// arbitrary failure timer of the host recorded as master (I5 is the induction hypothesis)
		if timerHost != "" || host == "" {
			return
		}
		timerHost = host
		if verifnd.Choose("timer.set", 2) == 1 {
			timerSet = true
			timerPre = verifnd.Int64("timer.failed_at")
			verifnd.Constrain(verifnd.And(timerPre >= 1, timerPre <= t0))
			w.app.t.Set(NodeFailedAt, timerHost, verifnd.TimeAt(timerPre))
		}
	}
	resolveList := func() {
		if resolved[pathActiveNodes] {
			return
		}
		resolved[pathActiveNodes] = true
		present := true
		if nLists == 0 {
			// every subset of the HA hosts, or no list at all
			if verifnd.Choose("dcs.active_nodes", 2) == 1 {
				present = false
			} else {
				list = []string{}
				for _, h := range w.ha {
					if verifnd.Choose("dcs.active_nodes."+h, 2) == 1 {
						list = append(list, h)
					}
				}
			}
		} else {
			switch verifnd.Choose("dcs.active_nodes", nLists) {
			case 0:
				list = append([]string{}, w.ha...)
			case 1:
				present = false
			case 2:
				list = []string{m, replicas[0]}
			case 3:
				list = append([]string{}, replicas...)
			case 4:
				list = []string{}
			default:
				list = []string{m}
			}
		}
		if present {
			w.dcs.seed(pathActiveNodes, list)
		}
	}
	resolveLast := func() {
		if resolved[pathLastSwitch] {
			return
		}
		resolved[pathLastSwitch] = true
		lastKind = verifnd.Choose("dcs.last_switch", 4)
		if lastKind != 0 {
			sw := &Switchover{From: "h3", To: m, InitiatedBy: "h3", Cause: CauseAuto, MasterTransition: FailoverTransition}
			if lastKind == 2 {
				sw.Cause, sw.MasterTransition, sw.InitiatedBy = CauseManual, SwitchoverTransition, "operator"
			}
			if lastKind != 3 {
				lastFinished = verifnd.Int64("dcs.last_switch.finished_at")
				verifnd.Constrain(verifnd.And(lastFinished >= 1, lastFinished < lim))
				sw.Result = &SwitchoverResult{Ok: true, FinishedAt: verifnd.TimeAt(lastFinished)}
			}
			w.dcs.seed(pathLastSwitch, sw)
		}
		// a later request that was rejected (its own record: last_rejected_switch) says nothing about
		// the last finished failover and must not hide it
		if verifnd.Param("rejected_record", 0) == 1 && verifnd.Choose("dcs.last_rejected_switch", 2) == 1 {
			w.dcs.seed(pathLastRejectedSwitch, &Switchover{From: m, InitiatedBy: "operator", Cause: CauseManual, MasterTransition: SwitchoverTransition,
				InitiatedAt: verifnd.TimeAt(lim - 1), Result: &SwitchoverResult{Ok: false, Error: "rejected", FinishedAt: verifnd.TimeAt(lim - 1)}})
			verifnd.Reach("C05.rejected-record-present")
		}
	}
	resolve := func(p string) {
		if resolved[p] {
			return
		}
		switch p {
		case pathMasterNode:
			resolved[p] = true
			masterKind = verifnd.Choose("dcs.master", 1+masterAbsent)
			if masterKind == 0 {
				w.dcs.seed(pathMasterNode, m)
			} else {
				resolveKinds() // ensureCurrentMaster looks at the view
			}
		case pathActiveNodes:
			resolveList()
		case pathMaintenance:
			resolved[p] = true
			advance()
			maintKind = verifnd.Choose("dcs.maintenance", 3)
			if maintKind != 0 {
				if w.app.lostQuorumTime.IsZero() {
					// (leaving maintenance right after a quorum loss was noticed goes through
					// AcquireLock's float-formatted log line: outside)
					maintLeave = verifnd.Bool("dcs.maintenance.should_leave")
				}
				mode := LightMode
				if maintKind == 2 {
					mode = FullMode
				}
				verifnd.Fact("maintenance", string(mode))
				w.dcs.seed(pathMaintenance, &Maintenance{InitiatedBy: "operator", MySyncPaused: verifnd.Bool("dcs.maintenance.paused"), ShouldLeave: maintLeave, Mode: mode})
			}
		case pathCurrentSwitch:
			resolved[p] = true
			advance()
			switchKind = verifnd.Choose("dcs.switch", 3)
			if switchKind != 0 {
				at := verifnd.Int64("dcs.switch.initiated_at")
				verifnd.Constrain(verifnd.And(at >= 1, at <= t0))
				sw := &Switchover{From: m, InitiatedBy: "operator", InitiatedAt: verifnd.TimeAt(at), Cause: CauseManual, MasterTransition: SwitchoverTransition}
				if variant == 0 {
					sw.RunCount = verifnd.Int("dcs.switch.run_count", 0, 100)
				}
				if switchKind == 2 {
					sw.Cause, sw.MasterTransition, sw.InitiatedBy = CauseAuto, FailoverTransition, "h3"
				}
				w.dcs.seed(pathCurrentSwitch, sw)
			}
			resolveKinds()
			if switchKind == 0 || (switchKind == 2 && maintKind == 1) {
				resolveTimer(w.dcs.masterHost()) // the only continuations that look at the timer
			}
		case pathLastSwitch:
			if tEval == 0 {
				tEval = verifnd.ClockNS()
			}
			advance()
			tCool = verifnd.ClockNS()
			resolveLast()
		case "timing/downtime":
			resolved[p] = true
			advance()
		}
	}
	w.dcs.Lazy = resolve

	// ---- observation of the writes to the request node; an operator racing with the filing ----
	raced, overwrote := false, false
	existed := false
	var created []Switchover
	var createdBy []string
	w.dcs.Before = func(op, p string) {
		if p != pathCurrentSwitch || (op != "create" && op != "set") {
			return
		}
		if !w.dcs.has(p) {
			if tEval == 0 {
				tEval = verifnd.ClockNS()
			}
			advance()
			// (the race is independent of the gates passed before: explored on the paths without a last switch)
			if races > 0 && !raced && (lastKind == 0 || races > 1) && verifnd.Choose("race.operator-request", 2) == 1 {
				raced = true
				verifnd.Event("operator files a switchover request")
				w.dcs.seed(p, &Switchover{From: m, To: "h3", InitiatedBy: "operator", Cause: CauseManual, MasterTransition: SwitchoverTransition, InitiatedAt: verifnd.TimeAt(t0)})
			}
		}
		existed = w.dcs.has(p)
	}
	w.dcs.Checkpoint = func(op, p string) {
		if p != pathCurrentSwitch || (op != "create" && op != "set") {
			return
		}
		v, _ := w.dcs.peek(p)
		sw, _ := v.(Switchover)
		if !existed {
			created = append(created, sw)
			createdBy = append(createdBy, op)
		} else if raced && sw.InitiatedBy != "operator" {
			overwrote = true
		}
	}

	// the statement's gates over the pre-state (call only when the view and the list are drawn)
	allReplicating := func() bool { // every other HA node is still replicating, as far as the manager sees
		running, haNodes := 0, 0
		for _, h := range w.ha {
			haNodes++
			if repl[h] && runs[h] {
				running = verifnd.IteInt(ping[h], running+1, running)
			}
		}
		return verifnd.And(running > 0, running == haNodes-1)
	}
	quorumOK := func() bool { // alive HA replicas within the published list reach the failover quorum
		alive := 0
		for _, h := range list {
			if repl[h] && !isCasc[h] {
				alive = verifnd.IteInt(ping[h], alive+1, alive)
			}
		}
		n := len(list)
		wsc := verifnd.IteInt(cfgW < n/2, cfgW, n/2)
		quorum := verifnd.IteInt(n-wsc > 1, n-wsc, 1)
		return verifnd.Or(verifnd.And(cfg.SemiSync, alive >= quorum), verifnd.And(verifnd.Not(cfg.SemiSync), alive >= 1))
	}
	// gates decided by approveFailover for master M whose failure timer reads post
	approveGates := func(M string, post time.Time) {
		mPing, mFSRO := recPing[M], recFSRO[M]
		crash := verifnd.And(recCrash[M], cfg.ResetupCrashedHosts)
		verifnd.Assert(cfg.Failover, "filed.gates.enabled")
		// health: bad at every evaluation for at least the delay, unless crash-recovered / read-only fs
		elapsed := delay <= 0
		if !post.IsZero() {
			elapsed = tEval-verifnd.UnixNano(post) >= delay
		}
		viaPing := verifnd.And(verifnd.And(verifnd.Not(mPing), elapsed), verifnd.Not(allReplicating()))
		verifnd.Assert(verifnd.Or(verifnd.Or(crash, mFSRO), viaPing), "filed.gates.health")
		verifnd.Assert(quorumOK(), "filed.gates.quorum")
		switch lastKind {
		case 1:
			verifnd.Assert(tCool-lastFinished >= cooldown, "filed.gates.cooldown")
		case 3:
			verifnd.Assert(false, "filed.gates.cooldown") // a request without result is still in progress
		}
		// witnesses
		if crash {
			if mPing {
				verifnd.Reach("C05.filed.crash-recovery.good-record")
			} else {
				verifnd.Reach("C05.filed.crash-recovery")
			}
		} else if mFSRO {
			verifnd.Reach("C05.filed.fs-readonly")
		} else {
			verifnd.Reach("C05.filed.ping")
		}
		if lastKind == 2 && tCool-lastFinished < cooldown {
			verifnd.Reach("C05.filed.recent-manual-switch")
		}
		if lastKind == 1 {
			verifnd.Reach("C05.filed.cooldown-over")
		}
		if !cfg.SemiSync {
			verifnd.Reach("C05.filed.async")
		}
		if len(w.casc) > 0 && ping[w.casc[0]] {
			verifnd.Reach("C05.filed.with-running-cascade-replica")
		}
	}

	if variant == 3 {
		// ---- approveFailover alone ----
		M := m
		w.dcs.seed(pathMasterNode, m)
		resolveKinds()
		resolveList()
		resolveTimer(M)
		recBad := verifnd.Or(verifnd.Not(recPing[M]), recFSRO[M])
		// caller's precondition (established by the iteration harness): the record is bad and the
		// timer is running, or the master is crash-recovered with resetup enabled
		if timerSet {
			verifnd.Assume(verifnd.Or(recBad, verifnd.And(recCrash[M], cfg.ResetupCrashedHosts)))
		} else {
			verifnd.Assume(verifnd.And(verifnd.Not(recBad), verifnd.And(recCrash[M], cfg.ResetupCrashedHosts)))
		}
		err := w.app.approveFailover(view, recs, list, M)
		if tEval == 0 {
			tEval = verifnd.ClockNS()
		}
		if err == nil {
			if !resolved[pathLastSwitch] {
				resolveLast()
				tCool = verifnd.ClockNS()
			}
			approveGates(M, w.app.t.Get(NodeFailedAt, M))
			verifnd.Reach("C05.approved")
		} else {
			verifnd.Reach("C05.refused")
		}
		return
	}

	// ---- the manager process ----
	w.dcs.Connected = verifnd.Choose("dcs.connected", 2) == 0
	w.dcs.LockMode = 1
	nFaults := 0
	if variant == 2 {
		nFaults = verifnd.Param("dcs_faults", 1)
		w.dcs.FaultBudget = nFaults
		w.dcs.FaultOnReadsOnly = true
	}

	st := w.app.stateManager()

	t1 := verifnd.ClockNS()
	filed := len(created) > 0
	faulted := len(w.dcs.Faulted) > 0
	if faulted {
		verifnd.Fact("dcs_fault", w.dcs.Faulted[0])
	}
	locked := len(w.dcs.LockAnswers) > 0 && w.dcs.LockAnswers[0]
	M := w.dcs.masterHost() // the recorded master (written by ensureCurrentMaster when it was absent)
	invoked := func(name string) bool {
		for _, s := range stubs {
			if s == name {
				return true
			}
		}
		return false
	}
	// the master's health record as the manager reads it (missing = zero NodeState)
	recBad := verifnd.Or(verifnd.Not(recPing[M]), recFSRO[M])
	var post time.Time
	if M != "" {
		post = w.app.t.Get(NodeFailedAt, M)
	}

	// ---- third: the failure timer keeps I5 ----
	if M != "" && (timerHost == M || timerHost == "") {
		// this iteration evaluated the master's record for failover purposes
		evaluated := false
		if st == stateManager && !faulted && resolved[pathMaintenance] && resolved[pathCurrentSwitch] {
			if maintKind == 0 && switchKind == 0 {
				evaluated = true
			}
			if maintKind == 1 && (switchKind == 0 || switchKind == 2) {
				evaluated = verifnd.Not(maintLeave)
			}
		}
		switch {
		case timerSet && !post.IsZero():
			verifnd.Assert(verifnd.UnixNano(post) == timerPre, "timer.I5")                    // never restarted
			verifnd.Assert(verifnd.Implies(evaluated, recBad), "timer.I5")                    // an evaluation that saw it good cleans
			verifnd.Assert(verifnd.Implies(invoked("repairOfflineMode"), recBad), "timer.I5") // repairs are only reached through an evaluation
		case !timerSet && !post.IsZero():
			verifnd.Reach("C05.timer.started")
			verifnd.Assert(recBad, "timer.I5") // started only by an evaluation that saw it bad …
			// … at an instant within this iteration (differences, not comparisons of sums: all
			// instants are below 2^62, and the solver cancels the common clock prefix)
			pn := verifnd.UnixNano(post)
			verifnd.Assert(verifnd.And(pn-t0 >= 0, t1-pn >= 0), "timer.I5")
		case timerSet && post.IsZero():
			verifnd.Reach("C05.timer.cleaned")
		default:
			verifnd.Assert(verifnd.Implies(evaluated, verifnd.Not(recBad)), "timer.I5") // an evaluation that saw it bad starts it
		}
	}

	// ---- first: filed only when every gate is open ----
	verifnd.Assert(len(created) <= 1, "filed.shape")
	verifnd.Assert(!overwrote, "filed.shape") // create-if-absent: a request that appeared meanwhile survives
	if raced {
		verifnd.Reach("C05.race.operator-request")
		verifnd.Assert(!filed, "filed.shape")
	}
	if filed {
		rec := created[0]
		// look at the whole pre-state now (anything the iteration never read is still arbitrary)
		resolve(pathMaintenance)
		resolve(pathCurrentSwitch)
		resolveList()
		if !resolved[pathLastSwitch] {
			resolveLast()
			tCool = t1
		}
		resolveKinds()

		verifnd.Assert(createdBy[0] == "create", "filed.shape")
		verifnd.Assert(M != "" && rec.From == M, "filed.shape")
		verifnd.Assert(rec.Cause == CauseAuto && rec.MasterTransition == FailoverTransition, "filed.shape")
		verifnd.Assert(rec.To == "" && rec.Result == nil && rec.RunCount == 0 && rec.StartedAt.IsZero() && !rec.InitiatedAt.IsZero(), "filed.shape")
		verifnd.Assert(st == stateManager && locked && w.dcs.Connected, "filed.manager")
		verifnd.Assert(maintKind == 0, "filed.gates.maintenance")
		verifnd.Assert(switchKind == 0, "filed.gates.pending")
		approveGates(M, post)
		if timerSet {
			verifnd.Reach("C05.filed.timer-running")
		}
		if masterKind == 1 {
			verifnd.Reach("C05.filed.master-identified")
		}
		if faulted {
			verifnd.Reach("C05.filed.after-read-fault")
		}
	}

	// ---- second: unreachable master with a good record ⇒ nothing filed, no repair ----
	if M != "" && masterKind == 0 {
		pending := (resolved[pathMaintenance] && maintKind != 0) || (resolved[pathCurrentSwitch] && switchKind != 0)
		if !pending {
			noAction := !filed && len(stubs) == 0 && len(w.fleet.Log) == 0
			for _, wr := range w.dcs.Writes {
				if wr == "set "+pathActiveNodes || wr == "delete "+pathActiveNodes || wr == "set "+pathMasterNode {
					noAction = false
				}
			}
			suspicious := verifnd.And(verifnd.Not(ping[M]), verifnd.Not(recBad))
			verifnd.Assert(verifnd.Implies(suspicious, noAction), "suspicious.no-action")
			if !noAction {
				verifnd.Reach("C05.acted")
			} else if st == stateManager && resolved[pathCurrentSwitch] && !faulted {
				if suspicious {
					verifnd.Reach("C05.suspicious")
				}
			}
		}
	}

	// ---- never without the lock / connection ----
	if !w.dcs.Connected || !locked {
		verifnd.Assert(!filed && len(stubs) == 0 && len(w.dcs.Writes) == 0, "filed.manager")
		verifnd.Reach("C05.not-manager")
	}
	if w.dcs.Released > 0 {
		verifnd.Reach("C05.quorum-lost.lock-released")
		verifnd.Assert(!filed && len(stubs) == 0, "filed.manager")
	}

	// ---- witnesses for the refusing gates ----
	if !filed && maintKind == 2 && !faulted {
		verifnd.Reach("C05.refused.maintenance-full")
	}
	if !filed && !raced && !faulted && st == stateManager && resolved[pathCurrentSwitch] {
		switch {
		case maintKind == 1 && switchKind != 1:
			if recBad {
				verifnd.Reach("C05.refused.maintenance-light")
			}
		case switchKind != 0:
			verifnd.Reach("C05.refused.pending")
		case M != "" && kindsDone && resolved[pathActiveNodes]:
			crash := verifnd.And(recCrash[M], cfg.ResetupCrashedHosts)
			if recBad {
				switch {
				case !cfg.Failover:
					verifnd.Reach("C05.refused.disabled")
				case resolved[pathLastSwitch]:
					if lastKind == 1 {
						verifnd.Reach("C05.refused.cooldown")
					}
				case crash || recFSRO[M]:
					verifnd.Reach("C05.refused.quorum")
				case allReplicating():
					verifnd.Reach("C05.refused.all-replicating")
				case !post.IsZero() && t1-verifnd.UnixNano(post) < delay:
					verifnd.Reach("C05.refused.delay")
				}
			}
		}
	}
}
