package app

// C11 — recovery protocol keeps diverged ex-masters out until proven clean.
//
//   H_C11_check_recovery         one step of the host's own checkRecovery from an arbitrary situation
//   H_C11_check_recovery_faults  the same with a failing MySQL call and a failing DCS call
//   H_C11_check_recovery_self    the remaining input region (the marked host is the recorded master, has no
//                                replica status and has commits stuck on semi-sync): checkRecovery panics
//   H_C11_set_recovery           SetRecovery(h): "marked ⇒ not listed" at every crash point
//   H_C11_active_nodes           calcActiveNodes never returns a marked non-master host
//   H_C11_publish                updateActiveNodes: the same on every write of active_nodes
//   H_C11_stale_master[_faults]  repairCluster on a host claiming to be master beside the recorded one
//   H_C11_master_offline         repairOfflineMode: a marked offline master stays offline
//   H_C11_switchover[_faults]    performSwitchover: old master clean-or-marked, marked hosts never promoted,
//                                "marked ⇒ not listed" at every crash point
//
// The static side condition (the only call site of ClearRecovery is checkRecovery with the
// process's own hostname) is `vcheck callers` (engine.diff); its dynamic form is
// verifC11GuardClears, installed in every entry.

import (
	"strings"
	"time"

	nodestate "github.com/yandex/mysync/internal/app/node_state"
	"github.com/yandex/mysync/internal/config"
	"github.com/yandex/mysync/internal/dcs"
	"github.com/yandex/mysync/internal/mysql"
	"github.com/yandex/mysync/internal/verifnd"
)

func verifC11Mask() uint64 {
	return uint64(1)<<uint(verifnd.Param("gtid_bits", 6)) - 1
}

// verifC11Mark marks host for recovery directly in the store (pre-state).
func verifC11Mark(w *verifWorld, host string) {
	w.dcs.seed(dcs.JoinPath(pathRecovery, host), nil)
}

// verifC11GuardClears installs the dynamic form of the side condition "the mark of a
// host is removed only by that host's own mysync": every delete below recovery/ issued
// by the code under test must be recovery/<own hostname>.
func verifC11GuardClears(w *verifWorld) {
	own := dcs.JoinPath(pathRecovery, w.cfg.Hostname)
	prev := w.dcs.Before
	w.dcs.Before = func(op, p string) {
		if prev != nil {
			prev(op, p)
		}
		if op == "delete" && (p == pathRecovery || strings.HasPrefix(p, pathRecovery+"/")) {
			verifnd.Assert(p == own, "recovery.clear-own-only")
		}
	}
}

// region: 0 = everything except R, 1 = only R, where
// R = (recorded master is the local host ∧ local host has no replica status ∧ commits stuck on semi-sync ack).
func verifC11CheckRecovery(region int) {
	const local = "a"
	hosts := []string{"a", "b", "c"}
	cfg := verifConfig(local)
	w := verifNewWorld(cfg, hosts, nil)
	mask := verifC11Mask()

	// recorded master: another host, the local host, or no record at all
	master := local
	if region == 0 {
		master = []string{"b", local, ""}[verifnd.Choose("recorded_master", 3)]
	}
	if master != "" {
		w.dcs.seed(pathMasterNode, master)
	}
	w.dcs.seed(pathActiveNodes, []string{"b", "c"})

	// marks: the local one is arbitrary, another host's mark is always there (must survive)
	w.dcs.seed(pathRecovery, nil)
	verifC11Mark(w, "c")
	marked := region == 1 || verifnd.Choose("marked", 2) == 1
	if marked {
		verifC11Mark(w, local)
	}
	fileBefore := region == 0 && verifnd.Choose("resetup_file", 2) == 1
	if fileBefore {
		verifnd.Files[cfg.Resetupfile] = ""
	}

	// the local MySQL: arbitrary role, replication state, data, flags
	sa := w.fleet.Servers[local]
	sa.Alive = verifnd.Bool("alive.a")
	sa.IsReplica = verifnd.Bool("is_replica.a")
	sa.Source = []string{"b", "c"}[verifnd.Choose("source.a", 2)]
	sa.IORunning = verifnd.Bool("io.a")
	sa.SQLRunning = verifnd.Bool("sql.a")
	sa.IOErrno = verifnd.Int("io_errno.a", 0, 4000)
	sa.SQLErrno = verifnd.Int("sql_errno.a", 0, 4000)
	sa.Executed = verifnd.Uint64("executed.a") & mask
	sa.Retrieved = verifnd.Uint64("retrieved.a") & mask
	sa.ReadOnly = verifnd.Bool("ro.a")
	sa.SuperRO = verifnd.Bool("sro.a")
	verifnd.Assume(verifnd.Implies(sa.SuperRO, sa.ReadOnly)) // MySQL: super_read_only ⇒ read_only
	sa.WaitingAck = verifnd.Bool("stuck.a")
	sa.Offline = verifnd.Bool("offline.a")

	sm := w.fleet.Servers[master]
	if master == "" {
		sm = &mysql.VerifServer{} // placeholder: nothing may depend on it
	} else if master != local {
		sm.Alive = verifnd.Bool("alive.m")
		sm.Executed = verifnd.Uint64("executed.m") & mask
		sm.ReadOnly = verifnd.Bool("ro.m")
	}

	selfStuck := verifnd.And(master == local, verifnd.And(verifnd.Not(sa.IsReplica), sa.WaitingAck))
	if region == 0 {
		verifnd.Assume(verifnd.Not(selfStuck))
	} else {
		verifnd.Assume(selfStuck)
	}

	// MasterStuckAt timer: unset, or set at an arbitrary earlier instant
	timerSet := verifnd.Choose("stuck_timer_set", 2) == 1
	var timerNS int64
	if timerSet {
		timerNS = verifnd.Int64("stuck_timer")
		verifnd.Assume(verifnd.And(timerNS >= 1, timerNS <= verifnd.ClockNS()))
		w.app.t.Set(MasterStuckAt, local, verifnd.TimeAt(timerNS))
	}

	w.fleet.FaultBudget = verifnd.Param("faults", 0)
	w.fleet.FaultKinds = 1
	w.dcs.FaultBudget = verifnd.Param("dcs_faults", 0)
	dcsBudget := w.dcs.FaultBudget
	verifC11GuardClears(w)

	// ground truth of the pre-state (no statement of checkRecovery changes MySQL)
	isReplica := sa.IsReplica
	replRunning := verifnd.And(sa.IORunning, sa.SQLRunning)
	replErr := verifnd.And(verifnd.Not(replRunning), verifnd.Or(sa.IOErrno != 0, sa.SQLErrno != 0))
	subset := sa.Executed&^sm.Executed == 0
	readOnly := sa.ReadOnly
	stuck := sa.WaitingAck
	bothAlive := verifnd.And(sa.Alive, sm.Alive)
	clean := verifnd.And(verifnd.And(isReplica, verifnd.Not(replErr)), verifnd.And(subset, readOnly))
	lost := verifnd.And(isReplica, verifnd.Or(replErr, verifnd.Not(subset)))

	w.app.checkRecovery()

	if region == 1 {
		verifnd.Reach("C11.self.returned")
	}
	stillMarked := w.dcs.recoveryMarked(local)
	cleared := marked && !stillMarked
	written := false
	for _, f := range verifnd.FileWrites {
		verifnd.Assert(f == cfg.Resetupfile, "recovery.only-resetup-file")
		written = true
	}
	_, fileNow := verifnd.Files[cfg.Resetupfile]
	touched := len(w.dcs.Writes) > 0 || written || len(w.fleet.Log) > 0
	faulted := len(w.fleet.FaultsUsed) > 0 || w.dcs.FaultBudget != dcsBudget

	// nobody else's mark is ever touched; no mark appears
	verifnd.Assert(w.dcs.recoveryMarked("c"), "recovery.clear-own-only")
	verifnd.Assert(!w.dcs.recoveryMarked("b"), "recovery.clear-own-only")
	verifnd.Assert(marked || !stillMarked, "recovery.clear-own-only")
	// checkRecovery never issues a mutating statement to any MySQL
	verifnd.Assert(len(w.fleet.Log) == 0, "recovery.no-sql-writes")

	if !marked {
		verifnd.Reach("C11.unmarked")
		verifnd.Assert(!touched, "recovery.unmarked-idle")
		return
	}
	if fileBefore {
		verifnd.Reach("C11.file-idle")
		verifnd.Assert(!touched, "recovery.resetup-file-idle")
		verifnd.Assert(stillMarked && fileNow, "recovery.resetup-file-idle")
		return
	}
	if master == "" {
		verifnd.Reach("C11.no-master-record")
		verifnd.Assert(!touched && stillMarked, "recovery.clear-only-if-clean")
		return
	}

	// (1) the mark is deleted only for a read-only replica, not in error, contained in the master
	if cleared {
		verifnd.Reach("C11.cleared")
		verifnd.Assert(clean, "recovery.clear-only-if-clean")
		verifnd.Assert(!written, "recovery.lost-resetup-and-keep")
	}
	// (2) resetup file ⇒ the mark stays
	if written {
		verifnd.Assert(stillMarked && fileNow, "recovery.lost-resetup-and-keep")
		if verifnd.And(stuck, master != local) {
			verifnd.Reach("C11.resetup-stuck")
		} else {
			verifnd.Reach("C11.resetup-lost")
		}
	}
	// (3) replication in error or transactions the master lacks ⇒ mark stays …
	verifnd.Assert(verifnd.Implies(lost, stillMarked), "recovery.lost-resetup-and-keep")
	// … and the file is written, unless a call failed / a server is down, or the node is an
	// old master with stuck commits still inside its StuckWaitTime (the file follows when
	// the timer, which is armed here, runs out)
	timer := w.app.t.Get(MasterStuckAt, local)
	if !written && !faulted {
		pendingWait := false
		if master != local && !timer.IsZero() {
			waited := verifnd.ClockNS() - verifnd.UnixNano(timer)
			pendingWait = verifnd.And(stuck, waited < int64(StuckWaitTime))
		}
		verifnd.Assert(verifnd.Not(verifnd.And(bothAlive, verifnd.And(lost, verifnd.Not(pendingWait)))), "recovery.lost-resetup-and-keep")
		// auxiliary to the reading above: the wait is bounded — the timer is armed and an
		// already armed timer is not restarted
		if master != local {
			armed := !timer.IsZero()
			kept := true
			if timerSet && armed {
				kept = verifnd.UnixNano(timer) == timerNS
			}
			verifnd.Assert(verifnd.Implies(verifnd.And(bothAlive, stuck), verifnd.And(armed, kept)), "recovery.stuck-wait-bounded")
		}
		if !cleared {
			if verifnd.And(bothAlive, verifnd.And(stuck, master != local)) {
				verifnd.Reach("C11.stuck-wait")
			} else if verifnd.And(bothAlive, verifnd.And(verifnd.Not(clean), verifnd.And(isReplica, verifnd.Not(lost)))) {
				verifnd.Reach("C11.wait-readonly")
			} else if verifnd.And(bothAlive, verifnd.Not(isReplica)) {
				verifnd.Reach("C11.wait-for-manager")
			}
		}
	}
	if faulted {
		verifnd.Reach("C11.faulted")
	}
}

// H_C11_check_recovery: one call of checkRecovery from an arbitrary (local role, replication
// state, GTID relation, read-only flag, stuck commits, timer, resetup file, recorded master).
func H_C11_check_recovery() { verifC11CheckRecovery(0) }

// H_C11_check_recovery_faults: the same with failing calls.
func H_C11_check_recovery_faults() { verifC11CheckRecovery(0) }

// H_C11_check_recovery_self: the input region excluded above.
func H_C11_check_recovery_self() { verifC11CheckRecovery(1) }

// ---------------------------------------------------------------------------
// invariant "marked ⇒ not listed (unless recorded master)" on the store

func verifC11Listed(w *verifWorld, host string) bool {
	l, _ := w.dcs.activeNodes()
	for _, x := range l {
		if x == host {
			return true
		}
	}
	return false
}

// verifC11Inv asserts, on the current content of the store, that no host marked for
// recovery is in the published active list unless it is the recorded master.
func verifC11Inv(w *verifWorld, id string) {
	m := w.dcs.masterHost()
	for _, h := range w.ha {
		if h != m && w.dcs.recoveryMarked(h) {
			verifnd.Assert(!verifC11Listed(w, h), id)
		}
	}
}

// verifC11Subset returns the sub-list of hosts selected by the bits of k.
func verifC11Subset(hosts []string, k int) []string {
	out := []string{}
	for i, h := range hosts {
		if k&(1<<uint(i)) != 0 {
			out = append(out, h)
		}
	}
	return out
}

// H_C11_set_recovery: SetRecovery(h) from an arbitrary published list / set of marks that
// satisfies the invariant, with failing DCS operations: the invariant holds after every
// single write (crash points), and a nil return means h is marked and not listed.
func H_C11_set_recovery() {
	hosts := []string{"a", "b", "c"}
	cfg := verifConfig("b")
	w := verifNewWorld(cfg, hosts, nil)
	hi := verifnd.Choose("host", 3)
	h := hosts[hi]
	master := h
	if verifnd.Choose("host_is_recorded_master", 2) == 0 {
		master = hosts[(hi+1)%3]
	}
	w.dcs.seed(pathMasterNode, master)
	// published list: absent, or any subset
	lk := verifnd.Choose("active_list", 9)
	var list []string
	if lk > 0 {
		list = verifC11Subset(hosts, lk-1)
		w.dcs.seed(pathActiveNodes, list)
	}
	// marks: recovery/ absent, or present with any set of marks consistent with the invariant
	if verifnd.Choose("recovery_dir", 2) == 1 {
		w.dcs.seed(pathRecovery, nil)
		for _, x := range hosts {
			listed := false
			for _, y := range list {
				listed = listed || y == x
			}
			if listed && x != master {
				continue
			}
			if verifnd.Choose("premarked."+x, 2) == 1 {
				verifC11Mark(w, x)
			}
		}
	}
	var preMarks []string
	for _, x := range hosts {
		if w.dcs.recoveryMarked(x) {
			preMarks = append(preMarks, x)
		}
	}
	verifC11Inv(w, "recovery.pre-state") // sanity of the generator
	w.dcs.FaultBudget = verifnd.Param("dcs_faults", 1)
	budget := w.dcs.FaultBudget
	verifC11GuardClears(w)
	w.dcs.Checkpoint = func(op, p string) { verifC11Inv(w, "recovery.marked-not-listed") }

	err := w.app.SetRecovery(h)

	verifC11Inv(w, "recovery.marked-not-listed")
	if err == nil {
		verifnd.Reach("C11.set-recovery.ok")
		verifnd.Assert(w.dcs.recoveryMarked(h), "recovery.set-recovery-post")
		verifnd.Assert(!verifC11Listed(w, h), "recovery.set-recovery-post")
	} else {
		verifnd.Reach("C11.set-recovery.err")
		verifnd.Assert(w.dcs.FaultBudget != budget, "recovery.set-recovery-err-only-on-fault")
	}
	// marks are never removed here
	for _, x := range preMarks {
		verifnd.Assert(w.dcs.recoveryMarked(x), "recovery.clear-own-only")
	}
	verifnd.Assert(len(w.fleet.Log) == 0, "recovery.no-sql-writes")
}

// ---------------------------------------------------------------------------

// verifC11Profile is the structural (concrete per path) part of what the manager knows
// about one replica.
type verifC11Profile struct {
	marked bool // marked for recovery
	old    bool // member of the previously published list
	timer  bool // NodeFailedAt timer armed
	role   int  // 0: no replica status in the view; 1..3: replica, replication running / stopped / error
}

func verifC11ChooseProfile(tag string) verifC11Profile {
	return verifC11Profile{
		marked: verifnd.Choose("profile.marked."+tag, 2) == 1,
		old:    verifnd.Choose("profile.old."+tag, 2) == 1,
		timer:  verifnd.Choose("profile.timer."+tag, 2) == 1,
		role:   verifnd.Choose("profile.role."+tag, 4),
	}
}

// verifC11Profiles: the first Param(general_replicas) replicas get independent profiles,
// the others share the profile of the first (their symbolic attributes stay independent).
func verifC11Profiles(replicas []string, general int) map[string]verifC11Profile {
	out := map[string]verifC11Profile{}
	for i, h := range replicas {
		if i < general || i == 0 {
			out[h] = verifC11ChooseProfile(h)
		} else {
			out[h] = out[replicas[0]]
		}
	}
	return out
}

// verifC11View builds an arbitrary manager view (clusterState) and health view
// (clusterStateDcs) of the replicas; the master's view is healthy.
func verifC11View(w *verifWorld, master string, mask uint64, prof map[string]verifC11Profile, lean bool) (cs, csd map[string]*nodestate.NodeState) {
	cs = map[string]*nodestate.NodeState{}
	csd = map[string]*nodestate.NodeState{}
	for _, h := range w.ha {
		ns := &nodestate.NodeState{}
		ds := &nodestate.NodeState{}
		if h == master {
			ns.PingOk, ns.IsMaster = true, true
			ns.MasterState = &nodestate.MasterState{ExecutedGtidSet: verifnd.GTIDString(w.fleet.Servers[h].Executed)}
			ns.SemiSyncState = &nodestate.SemiSyncState{MasterEnabled: w.fleet.Servers[h].SSMaster, WaitSlaveCount: w.fleet.Servers[h].WaitCount}
			ds.PingOk, ds.IsMaster = true, true
		} else if lean {
			// lean view (H_C11_publish): alive or dead, health record agreeing, semi-sync
			// replica flag following the role
			role := prof[h].role
			ns.PingOk = verifnd.Bool("view.ping." + h)
			ds.PingOk = ns.PingOk
			ns.IsReadOnly = true
			if role == 0 {
				ns.IsMaster = true
			} else {
				st := []string{mysql.ReplicationRunning, mysql.ReplicationStopped, mysql.ReplicationError}[role-1]
				ns.SlaveState = &nodestate.SlaveState{MasterHost: master, ReplicationState: st,
					ExecutedGtidSet: verifnd.GTIDString(verifnd.Uint64("view.executed."+h) & mask)}
			}
			ns.SemiSyncState = &nodestate.SemiSyncState{SlaveEnabled: role == 1}
		} else {
			ns.PingOk = verifnd.Bool("view.ping." + h)
			ns.PingDubious = verifnd.Bool("view.dubious." + h)
			ns.IsReadOnly = verifnd.Bool("view.ro." + h)
			ds.PingOk = verifnd.Bool("health.ping." + h)
			if role := prof[h].role; role == 0 {
				// claims to be a master / state unknown
				ns.IsMaster = verifnd.Bool("view.is_master." + h)
			} else {
				st := []string{mysql.ReplicationRunning, mysql.ReplicationStopped, mysql.ReplicationError}[role-1]
				ns.SlaveState = &nodestate.SlaveState{MasterHost: master, ReplicationState: st,
					ExecutedGtidSet: verifnd.GTIDString(verifnd.Uint64("view.executed."+h) & mask)}
			}
			ns.SemiSyncState = &nodestate.SemiSyncState{SlaveEnabled: verifnd.Bool("view.ss_slave." + h)}
		}
		cs[h], csd[h] = ns, ds
	}
	return cs, csd
}

// verifC11ManagerWorld: master "m" (healthy, writable), replicas r1, r2 with arbitrary
// profiles; marks, previous list and NodeFailedAt timers set accordingly. The master may be
// marked too (the exception of the property).
func verifC11ManagerWorld(cfg *config.Config, lean bool) (w *verifWorld, cs, csd map[string]*nodestate.NodeState, old []string) {
	hosts := []string{"m", "r1", "r2"}
	w = verifNewWorld(cfg, hosts, nil)
	mask := verifC11Mask()
	const master = "m"
	verifHealthy(w, master)
	w.dcs.seed(pathMasterNode, master)
	sm := w.fleet.Servers[master]
	sm.Executed = verifnd.Uint64("executed.m") & mask
	sm.OwnBits = verifnd.Uint64("own.m") & mask
	w.syncGTIDOwners()

	prof := verifC11Profiles(hosts[1:], verifnd.Param("general_replicas", 1))
	masterMarked := verifnd.Choose("marked.m", 2) == 1
	any := masterMarked
	for _, h := range hosts[1:] {
		any = any || prof[h].marked
	}
	if any || verifnd.Choose("recovery_dir", 2) == 1 {
		w.dcs.seed(pathRecovery, nil)
	}
	if masterMarked {
		verifC11Mark(w, master)
	}
	old = []string{master}
	for _, h := range hosts[1:] {
		p := prof[h]
		if p.marked {
			verifC11Mark(w, h)
		}
		if p.old {
			old = append(old, h)
		}
		if p.timer {
			ns := verifnd.Int64("failed_at.ns." + h)
			verifnd.Assume(verifnd.And(ns >= 1, ns <= verifnd.ClockNS()))
			w.app.t.Set(NodeFailedAt, h, verifnd.TimeAt(ns))
		}
	}
	cs, csd = verifC11View(w, master, mask, prof, lean)
	return w, cs, csd, old
}

// H_C11_active_nodes: calcActiveNodes from an arbitrary view, arbitrary marks, arbitrary
// previous list, arbitrary NodeFailedAt timers: the result never contains a host that is
// marked for recovery and is not the master.
func H_C11_active_nodes() {
	const master = "m"
	w, cs, csd, old := verifC11ManagerWorld(verifConfig(master), false)
	hosts := w.ha
	w.dcs.FaultBudget = verifnd.Param("dcs_faults", 0)
	verifC11GuardClears(w)

	res, err := w.app.calcActiveNodes(cs, csd, old, master)

	if err != nil {
		verifnd.Reach("C11.calc.err")
		verifnd.Assert(len(res) == 0, "recovery.marked-not-listed")
		return
	}
	sawMarked := false
	for _, h := range res {
		verifnd.Assert(h == master || !w.dcs.recoveryMarked(h), "recovery.marked-not-listed")
	}
	for _, h := range hosts[1:] {
		if w.dcs.recoveryMarked(h) {
			sawMarked = true
		}
	}
	inRes := func(x string) bool {
		for _, h := range res {
			if h == x {
				return true
			}
		}
		return false
	}
	if sawMarked {
		verifnd.Reach("C11.calc.marked-excluded")
	}
	if w.dcs.recoveryMarked(master) && inRes(master) {
		verifnd.Reach("C11.calc.marked-master-listed")
	}
	if len(res) == 3 {
		verifnd.Reach("C11.calc.all-listed")
	}
	verifnd.Assert(len(w.dcs.Writes) == 0, "recovery.calc-pure")
	verifnd.Assert(len(w.fleet.Log) == 0, "recovery.calc-pure")
}

// H_C11_publish: updateActiveNodes (calcActiveNodes + semi-sync adjustment + the write of
// active_nodes) from the same arbitrary situations, the store satisfying the invariant
// before: after every single write to the store no marked non-master host is listed.
func H_C11_publish() {
	const master = "m"
	cfg := verifConfig(master)
	cfg.SemiSync = verifnd.Bool("cfg.semisync")
	w, cs, csd, old := verifC11ManagerWorld(cfg, true)
	// the published list is the one the manager read at the start of the iteration,
	// minus marked non-master hosts (invariant of the pre-state)
	var list []string
	for _, h := range old {
		if h == master || !w.dcs.recoveryMarked(h) {
			list = append(list, h)
		}
	}
	w.dcs.seed(pathActiveNodes, list)
	verifC11Inv(w, "recovery.pre-state")
	w.fleet.FaultBudget = verifnd.Param("faults", 0)
	w.fleet.FaultKinds = 2
	w.dcs.FaultBudget = verifnd.Param("dcs_faults", 0)
	verifC11GuardClears(w)
	published := false
	w.dcs.Checkpoint = func(op, p string) {
		verifC11Inv(w, "recovery.marked-not-listed")
		if p == pathActiveNodes {
			published = true
		}
	}

	err := w.app.updateActiveNodes(cs, csd, old, master)

	verifC11Inv(w, "recovery.marked-not-listed")
	anyMarked := false
	for _, h := range w.ha[1:] {
		anyMarked = anyMarked || w.dcs.recoveryMarked(h)
	}
	if published {
		verifnd.Reach("C11.publish.written")
		if anyMarked {
			verifnd.Reach("C11.publish.written-with-marks")
		}
	} else if err == nil {
		verifnd.Reach("C11.publish.kept")
	} else {
		verifnd.Reach("C11.publish.err")
	}
}

// ---------------------------------------------------------------------------

// H_C11_switchover: one run of performSwitchover (failover of m / switchover from m /
// switchover to a) on m + replicas a, b with arbitrary GTID sets, m alive or dead, an
// arbitrary published list and arbitrary marks consistent with the invariant:
//   - a nil return means the old master is marked for recovery or is a replica, not in
//     error, whose transactions are contained in the new master's (the C01 link);
//   - no host that is marked (and is not the recorded master) is promoted;
//   - "marked ⇒ not listed unless recorded master" holds after every write to the store.
func H_C11_switchover() {
	hosts := []string{"m", "a", "b"}
	cfg := verifConfig("a")
	// timing is not part of this claim (timeouts only turn into failure returns, the
	// subject of C01/C06): deterministic clock, 1 ms per reading
	verifnd.ConcreteClockStep = int64(time.Millisecond)
	cfg.SlaveCatchUpTimeout = 2 * time.Second
	cfg.SemiSync = verifnd.Choose("cfg.semisync", 2) == 1
	w := verifNewWorld(cfg, hosts, nil)
	mask := verifC11Mask()
	verifHealthy(w, "m")
	sm, sa, sb := w.fleet.Servers["m"], w.fleet.Servers["a"], w.fleet.Servers["b"]
	sm.OwnBits, sa.OwnBits, sb.OwnBits = mask&0x7, mask&0x38, 0
	w.syncGTIDOwners()
	// GTID relation (concrete per path; bit 0,1: transactions of m that everybody has,
	// bit 2: a transaction of m, bit 3: a transaction of a previous master)
	switch verifnd.Choose("gtids", verifnd.Param("gtid_cases", 4)) {
	case 0: // everybody equal
		sm.Executed, sa.Executed, sb.Executed = 3, 3, 3
	case 1: // m has a transaction nobody else has (diverged / lost on failover)
		sm.Executed, sa.Executed, sb.Executed = 7, 3, 3
	case 2: // b lags behind a and m
		sm.Executed, sa.Executed, sb.Executed = 7, 7, 3
	default: // m lacks a transaction the replicas have (stale old master)
		sm.Executed, sa.Executed, sb.Executed = 3, 11, 11
	}
	sm.Executed, sa.Executed, sb.Executed = sm.Executed&mask, sa.Executed&mask, sb.Executed&mask
	if !cfg.SemiSync {
		sm.SSMaster, sa.SSSlave, sb.SSSlave = false, false, false
	}
	// the old master: alive; dead; or dead when the manager looked and back afterwards
	mState := verifnd.Choose("state.m", verifnd.Param("m_states", 3))
	sm.Alive = mState == 0

	// published list and marks, consistent with the invariant
	list := [][]string{{"m", "a", "b"}, {"m", "a"}, {"a", "b"}, {"m", "b"}}[verifnd.Choose("active_list", verifnd.Param("lists", 4))]
	w.dcs.seed(pathActiveNodes, list)
	w.dcs.seed(pathRecovery, nil)
	if verifnd.Choose("premarked.m", 2) == 1 {
		verifC11Mark(w, "m")
	}
	for _, x := range []string{"a", "b"} {
		if !verifC11Listed(w, x) && verifnd.Choose("premarked."+x, 2) == 1 {
			verifC11Mark(w, x)
		}
	}
	verifC11Inv(w, "recovery.pre-state")

	// With semi-sync the "turbo" phase 0 of a SwitchoverTransition is the subject of C19
	// (and needs a ticker); such requests are issued the way the MDB worker does it, with
	// the transition left unset, which skips exactly that phase.
	manual := SwitchoverTransition
	if cfg.SemiSync {
		manual = ""
	}
	sw := &Switchover{InitiatedBy: "cli", InitiatedAt: verifnd.Now(), RunCount: 0}
	switch verifnd.Choose("request", verifnd.Param("requests", 4)) {
	case 0: // automatic failover
		sw.From, sw.Cause, sw.MasterTransition = "m", CauseAuto, FailoverTransition
	case 1: // switchover away from m
		sw.From, sw.Cause, sw.MasterTransition = "m", CauseManual, manual
	case 2: // switchover to a
		sw.To, sw.Cause, sw.MasterTransition = "a", CauseManual, manual
	default: // failover requested by hand (mysync switch --failover)
		sw.From, sw.Cause, sw.MasterTransition = "m", CauseManual, FailoverTransition
	}
	w.dcs.seed(pathCurrentSwitch, sw)
	cs := w.observe()
	if mState == 2 {
		sm.Alive = true
	}
	// discriminating facts for the triage of violations
	premarked := ""
	for _, x := range hosts {
		if w.dcs.recoveryMarked(x) {
			premarked += x
		}
	}
	verifnd.Fact("premarked", premarked)
	verifnd.Fact("request", sw.Cause+"/"+string(sw.MasterTransition)+"/from="+sw.From+"/to="+sw.To)
	verifnd.Fact("list", strings.Join(list, ","))

	w.fleet.FaultBudget = verifnd.Param("faults", 0)
	w.fleet.FaultKinds = 2
	w.dcs.FaultBudget = verifnd.Param("dcs_faults", 0)
	verifC11GuardClears(w)
	w.fleet.Before = func(host, stmt string) {
		switch stmt {
		case "reset_slave_all", "reset_replica_all", "set_writable":
			if host != w.dcs.masterHost() {
				verifnd.Assert(!w.dcs.recoveryMarked(host), "recovery.marked-never-promoted")
				verifnd.Reach("C11.switchover.promotion")
			}
		}
	}
	w.dcs.Checkpoint = func(op, p string) {
		verifC11Inv(w, "recovery.marked-not-listed")
		if p == pathMasterNode {
			nm := w.dcs.masterHost()
			verifnd.Assert(nm == "m" || !w.dcs.recoveryMarked(nm), "recovery.marked-never-promoted")
		}
	}

	err := w.app.performSwitchover(cs, list, sw, "m")

	verifC11Inv(w, "recovery.marked-not-listed")
	if err != nil {
		verifnd.Reach("C11.switchover.failed")
		if sw.To != "" && w.dcs.recoveryMarked(sw.To) {
			verifnd.Reach("C11.switchover.marked-target-refused")
		}
		return
	}
	nm := w.dcs.masterHost()
	verifnd.Assert(nm != "m", "recovery.switchover-post")
	sn := w.fleet.Servers[nm]
	replRunning := verifnd.And(sm.IORunning, sm.SQLRunning)
	replErr := verifnd.And(verifnd.Not(replRunning), verifnd.Or(sm.IOErrno != 0, sm.SQLErrno != 0))
	cleanReplica := verifnd.And(verifnd.And(sm.Alive, sm.IsReplica), verifnd.And(verifnd.Not(replErr), sm.Executed&^sn.Executed == 0))
	if w.dcs.recoveryMarked("m") {
		verifnd.Reach("C11.switchover.old-master-marked")
		verifnd.Assert(!verifC11Listed(w, "m"), "recovery.marked-not-listed")
	} else {
		verifnd.Reach("C11.switchover.old-master-clean")
		verifnd.Assert(cleanReplica, "recovery.old-master-clean-or-marked")
	}
}

// H_C11_switchover_faults: the same with one failing / lost-reply MySQL call.
func H_C11_switchover_faults() { H_C11_switchover() }

// ---------------------------------------------------------------------------

// H_C11_stale_master: the manager's repair step finds host "a" claiming to be a master
// (alive, no replica status) beside the recorded master "m": when no call fails, a ends
// marked for recovery, not listed and offline; with failing calls the treatment may be
// postponed, but a is never given a replication source without carrying the mark (crash
// points included). At every crash point "marked ⇒ not listed".
func H_C11_stale_master() {
	hosts := []string{"m", "a", "r"}
	cfg := verifConfig("m")
	w := verifNewWorld(cfg, hosts, nil)
	mask := verifC11Mask()
	verifHealthy(w, "m")
	sa := w.fleet.Servers["a"]
	sa.IsReplica, sa.Source, sa.IORunning, sa.SQLRunning, sa.LagValid = false, "", false, false, false
	sa.ReadOnly, sa.SuperRO, sa.SSSlave = false, false, false
	// the manager's view: m and r as observed; a is replaced below
	cs := w.observe()
	verifnd.Assert(cs["a"].PingOk && cs["a"].IsMaster && cs["a"].SlaveState == nil, "recovery.pre-state")

	// a: an arbitrary alive non-replica, and the matching view of it
	sa.ReadOnly = verifnd.Bool("ro.a")
	sa.SuperRO = verifnd.Bool("sro.a")
	verifnd.Assume(verifnd.Implies(sa.SuperRO, sa.ReadOnly))
	sa.Offline = verifnd.Bool("offline.a")
	sa.SSMaster = verifnd.Bool("ss_master.a")
	sa.WaitCount = 1
	sa.Executed = verifnd.Uint64("executed.a") & mask
	w.fleet.Servers["m"].Executed = verifnd.Uint64("executed.m") & mask
	w.fleet.Servers["r"].Executed = w.fleet.Servers["m"].Executed
	va := cs["a"]
	va.IsReadOnly, va.IsSuperReadOnly, va.IsOffline = sa.ReadOnly, sa.SuperRO, sa.Offline
	va.MasterState = &nodestate.MasterState{ExecutedGtidSet: verifnd.GTIDString(sa.Executed)}
	va.SemiSyncState = &nodestate.SemiSyncState{MasterEnabled: sa.SSMaster, WaitSlaveCount: 1}
	cs["m"].MasterState.ExecutedGtidSet = verifnd.GTIDString(w.fleet.Servers["m"].Executed)
	cs["r"].SlaveState.ExecutedGtidSet = verifnd.GTIDString(w.fleet.Servers["r"].Executed)

	// published list (a listed or not, the others listed or not) and marks: arbitrary,
	// consistent with the invariant
	var list []string
	others := verifnd.Choose("others_listed", 2) == 1
	aListed := verifnd.Choose("a_listed", 2) == 1
	if others {
		list = append(list, "m")
	}
	if aListed {
		list = append(list, "a")
	}
	if others {
		list = append(list, "r")
	}
	w.dcs.seed(pathActiveNodes, list)
	if verifnd.Choose("recovery_dir", 2) == 1 {
		w.dcs.seed(pathRecovery, nil)
		if !aListed && verifnd.Choose("premarked.a", 2) == 1 {
			verifC11Mark(w, "a")
		}
	}
	verifC11Inv(w, "recovery.pre-state")

	w.fleet.FaultBudget = verifnd.Param("faults", 0)
	w.fleet.FaultKinds = verifnd.Param("fault_kinds", 2)
	w.dcs.FaultBudget = verifnd.Param("dcs_faults", 0)
	budget := w.dcs.FaultBudget
	verifC11GuardClears(w)
	w.dcs.Checkpoint = func(op, p string) { verifC11Inv(w, "recovery.marked-not-listed") }
	// crash points: from the moment a is given a replication source (it then no longer
	// "claims to be a master" and would never be found again) it must carry the mark
	repointed := func() {
		if sa.IsReplica {
			verifnd.Assert(w.dcs.recoveryMarked("a"), "recovery.stale-master-marked")
		}
	}
	w.fleet.Checkpoint = func(host, stmt string) {
		verifC11Inv(w, "recovery.marked-not-listed")
		repointed()
	}

	w.app.repairCluster(cs, cs, "m")

	verifC11Inv(w, "recovery.marked-not-listed")
	repointed()
	dcsFaulted := w.dcs.FaultBudget != budget
	sqlFaulted := len(w.fleet.FaultsUsed) > 0
	if !dcsFaulted && !sqlFaulted {
		// no failing call: found ⇒ marked (and not listed) in this very iteration
		verifnd.Assert(w.dcs.recoveryMarked("a"), "recovery.stale-master-marked")
		verifnd.Assert(!verifC11Listed(w, "a"), "recovery.stale-master-marked")
		verifnd.Reach("C11.stale.marked")
	}
	if dcsFaulted {
		verifnd.Reach("C11.stale.dcs-fault")
	}
	if sa.IsReplica {
		verifnd.Reach("C11.stale.repointed")
	} else if sqlFaulted || dcsFaulted {
		// a failing call may postpone the whole treatment to the next iteration; the host
		// then still has no replica status, i.e. it will be found again
		verifnd.Reach("C11.stale.postponed")
	}
	if !sqlFaulted {
		verifnd.Assert(sa.Offline, "recovery.stale-master-offline")
		verifnd.Assert(sa.ReadOnly, "recovery.stale-master-offline")
		if !dcsFaulted {
			verifnd.Reach("C11.stale.offline")
		}
	} else {
		verifnd.Reach("C11.stale.sql-fault")
	}
	// nobody else gets marked, the recorded master is not touched
	verifnd.Assert(!w.dcs.recoveryMarked("m") && !w.dcs.recoveryMarked("r"), "recovery.stale-master-only")
	verifnd.Assert(w.dcs.masterHost() == "m", "recovery.stale-master-only")
	sm := w.fleet.Servers["m"]
	verifnd.Assert(!sm.Offline && !sm.ReadOnly && !sm.IsReplica, "recovery.stale-master-only")
}

// H_C11_stale_master_faults: the same with one failing / lost-reply MySQL call and one failing DCS call.
func H_C11_stale_master_faults() { H_C11_stale_master() }

// ---------------------------------------------------------------------------

// H_C11_master_offline: repairOfflineMode on a recorded master that is offline: it is
// set online only if it is not marked for recovery.
func H_C11_master_offline() {
	hosts := []string{"m", "r1", "r2"}
	cfg := verifConfig("r1")
	w := verifNewWorld(cfg, hosts, nil)
	verifHealthy(w, "m")
	sm := w.fleet.Servers["m"]
	sm.Offline = verifnd.Bool("offline.m")
	sm.ReadOnly = verifnd.Bool("ro.m")
	marked := verifnd.Choose("marked.m", 2) == 1
	w.dcs.seed(pathRecovery, nil)
	verifC11Mark(w, "r2") // somebody else's mark is irrelevant
	if marked {
		verifC11Mark(w, "m")
	}
	wasOffline := sm.Offline
	cs := w.observe()
	w.dcs.FaultBudget = verifnd.Param("dcs_faults", 0)
	budget := w.dcs.FaultBudget
	verifC11GuardClears(w)

	w.app.repairOfflineMode(cs, "m")

	setOnline := false
	for _, e := range w.fleet.Log {
		if e == "m:disable_offline_mode" {
			setOnline = true
		}
	}
	if marked && w.dcs.FaultBudget == budget {
		verifnd.Assert(!setOnline, "recovery.marked-master-offline")
		verifnd.Assert(verifnd.Iff(sm.Offline, wasOffline), "recovery.marked-master-offline")
		verifnd.Reach("C11.offline.marked")
	}
	if marked && w.dcs.FaultBudget != budget {
		// the read of the mark failed
		verifnd.Assert(!setOnline, "recovery.marked-master-offline.dcs-fault")
		verifnd.Reach("C11.offline.marked-dcs-fault")
	}
	if setOnline {
		verifnd.Reach("C11.offline.set-online")
		verifnd.Assert(wasOffline, "recovery.marked-master-offline")
	}
	verifnd.Assert(w.dcs.recoveryMarked("m") == marked && w.dcs.recoveryMarked("r2"), "recovery.clear-own-only")
}

var _ = time.Second
