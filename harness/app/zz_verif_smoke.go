package app

// Smoke harness: one manager iteration on a healthy 3-node semi-sync cluster.
// Used by `vcheck selftest` to exercise the whole cut end to end.

import (
	"github.com/yandex/mysync/internal/verifnd"
)

// verifHealthy makes m the writable master and the others running semi-sync replicas of it.
func verifHealthy(w *verifWorld, master string) {
	for _, h := range w.fleet.Hosts {
		s := w.fleet.Servers[h]
		s.Executed = 1
		s.OwnBits = 0
		if h == master {
			s.SSMaster, s.WaitCount = true, 1
			s.OwnBits = 6
			continue
		}
		s.ReadOnly, s.SuperRO = true, true
		s.IsReplica, s.Source, s.IORunning, s.SQLRunning = true, master, true, true
		s.LagValid, s.Lag = true, 0
		s.SSSlave = true
	}
	w.dcs.seed(pathMasterNode, master)
	w.dcs.seed(pathActiveNodes, append([]string{}, w.ha...))
}

// verifPublishHealth writes a health record for every host from the fleet's ground truth.
func verifPublishHealth(w *verifWorld) {
	cs := w.observe()
	for h, ns := range cs {
		w.dcs.seed("health/"+h, ns)
	}
}

func H_smoke_manager() {
	w := verifNewWorld(verifConfig("h1"), []string{"h1", "h2", "h3"}, nil)
	verifHealthy(w, "h1")
	verifPublishHealth(w)
	st := w.app.stateManager()
	verifnd.Assert(st == stateManager, "smoke.state")
	verifnd.Assert(len(w.fleet.FaultsUsed) == 0, "smoke.nofault")
	verifnd.Reach("smoke.done")
}
