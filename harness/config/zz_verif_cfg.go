package config

// The configuration contract other checks assume (C18: not_critical <= critical, with the
// hysteresis band switched off when not_critical is not configured; C01/C12: semi-sync and the
// async mode exclude each other, async needs repl_mon): what ReadFromFile does after loading —
// SetDynamicDefaults, then Validate — on arbitrary values.

import "github.com/yandex/mysync/internal/verifnd"

func H_C18_config() {
	var cfg Config
	cfg.CriticalDiskUsage = verifnd.Float("critical_disk_usage")
	cfg.NotCriticalDiskUsage = verifnd.Float("not_critical_disk_usage")
	verifnd.Assume(cfg.CriticalDiskUsage == cfg.CriticalDiskUsage && cfg.NotCriticalDiskUsage == cfg.NotCriticalDiskUsage) // YAML has no NaN literal the loader accepts
	cfg.SemiSync = verifnd.Bool("semi_sync")
	cfg.ASync = verifnd.Bool("async")
	cfg.ReplMon = verifnd.Bool("repl_mon")
	configured := cfg.NotCriticalDiskUsage
	crit := cfg.CriticalDiskUsage
	cfg.SetDynamicDefaults()
	// an unconfigured (zero) not-critical level means "no hysteresis": it follows the critical level
	verifnd.Assert(verifnd.Implies(configured == 0, cfg.NotCriticalDiskUsage == crit), "config.not-critical-defaults-to-critical")
	verifnd.Assert(verifnd.Implies(configured != 0, cfg.NotCriticalDiskUsage == configured), "config.not-critical-kept")
	verifnd.Assert(cfg.CriticalDiskUsage == crit, "config.critical-kept")
	err := cfg.Validate()
	if err == nil {
		verifnd.Reach("C18.config.valid")
		verifnd.Assert(cfg.NotCriticalDiskUsage <= cfg.CriticalDiskUsage, "config.valid-means-ordered-thresholds")
		verifnd.Assert(verifnd.Not(verifnd.And(cfg.SemiSync, cfg.ASync)), "config.valid-means-one-mode")
		verifnd.Assert(verifnd.Implies(cfg.ASync, cfg.ReplMon), "config.valid-means-async-has-replmon")
	} else {
		verifnd.Reach("C18.config.rejected")
		bad := verifnd.Or(cfg.NotCriticalDiskUsage > cfg.CriticalDiskUsage, verifnd.Or(verifnd.And(cfg.SemiSync, cfg.ASync), verifnd.And(cfg.ASync, verifnd.Not(cfg.ReplMon))))
		verifnd.Assert(bad, "config.rejected-only-for-a-reason")
	}
}
