package main

// vcheck callers: static side conditions from the SSA form of the UNMODIFIED repo
// (no harness overlay, no instrumentation, no test files): every call site of a
// function or method with a given name — static calls, interface invokes, `go` and
// `defer` — with the enclosing function and the rendered arguments.
//
//   vcheck callers [-allow "F1,F2"] [-arg "F=expr"] <name>
//
// -allow: the only functions that may contain a call site (exit 1 otherwise).
// -arg:   in function F, argument 0 (after the receiver) of every call site must render as expr.
// Taking the address of the function / a method value / a bound-method closure counts
// as an (unrestricted) use and is reported as kind "value" — it fails -allow.

import (
	"encoding/json"
	"flag"
	"fmt"
	"go/token"
	"go/types"
	"os"
	"sort"
	"strings"

	"golang.org/x/tools/go/ssa"
	"golang.org/x/tools/go/ssa/ssautil"
)

type callSite struct {
	Caller string
	Pos    string
	Kind   string // static | invoke | value
	Callee string
	Args   []string
}

func shortFn(f *ssa.Function) string {
	s := f.String()
	s = strings.ReplaceAll(s, modPath+"/internal/", "")
	s = strings.ReplaceAll(s, modPath+"/", "")
	return s
}

// renderVal prints an SSA value as a source-like expression where that is obvious.
func renderVal(v ssa.Value, depth int) string {
	if depth > 8 {
		return v.Name()
	}
	switch x := v.(type) {
	case *ssa.Parameter:
		return x.Name()
	case *ssa.Const:
		return x.String()
	case *ssa.UnOp:
		if x.Op == token.MUL {
			if fa, ok := x.X.(*ssa.FieldAddr); ok {
				return renderVal(fa, depth+1)
			}
			return "*" + renderVal(x.X, depth+1)
		}
	case *ssa.FieldAddr:
		name := fmt.Sprintf("#%d", x.Field)
		if fld := structFieldName(x); fld != "" {
			name = fld
		}
		return renderVal(x.X, depth+1) + "." + name
	case *ssa.Call:
		return renderCall(x.Common(), depth+1)
	case *ssa.MakeInterface:
		return renderVal(x.X, depth+1)
	case *ssa.Global:
		return x.Name()
	}
	return v.Name() + ":" + v.Type().String()
}

func structFieldName(fa *ssa.FieldAddr) string {
	t := fa.X.Type().Underlying()
	if p, ok := t.(*types.Pointer); ok {
		t = p.Elem().Underlying()
	}
	if st, ok := t.(*types.Struct); ok && fa.Field < st.NumFields() {
		return st.Field(fa.Field).Name()
	}
	return ""
}

func allFunctions(prog *ssa.Program) []*ssa.Function {
	m := ssautil.AllFunctions(prog)
	var out []*ssa.Function
	for f := range m {
		out = append(out, f)
	}
	sort.Slice(out, func(i, j int) bool { return out[i].String() < out[j].String() })
	return out
}

func renderCall(c *ssa.CallCommon, depth int) string {
	var args []string
	for _, a := range c.Args {
		args = append(args, renderVal(a, depth+1))
	}
	if c.IsInvoke() {
		return renderVal(c.Value, depth+1) + "." + c.Method.Name() + "(" + strings.Join(args, ", ") + ")"
	}
	if f := c.StaticCallee(); f != nil {
		return shortFn(f) + "(" + strings.Join(args, ", ") + ")"
	}
	return c.Value.Name() + "(" + strings.Join(args, ", ") + ")"
}

func cmdCallers(args []string) int {
	fs := flag.NewFlagSet("callers", flag.ExitOnError)
	allow := fs.String("allow", "", "comma separated functions that may contain a call site")
	argRule := fs.String("arg", "", "F=expr: first non-receiver argument of call sites inside F must render as expr")
	fs.Parse(args)
	if fs.NArg() != 1 {
		fmt.Fprintln(os.Stderr, "usage: vcheck callers [-allow F1,F2] [-arg F=expr] <name>")
		return 2
	}
	name := fs.Arg(0)
	l, err := loadProgram([]string{"./..."}, nil, false)
	if err != nil {
		fmt.Fprintln(os.Stderr, err)
		return 2
	}
	var sites []callSite
	isTarget := func(f *ssa.Function) bool {
		return f != nil && f.Name() == name && f.Pkg != nil && strings.HasPrefix(f.Pkg.Pkg.Path(), modPath)
	}
	fns := allFunctions(l.prog)
	for _, fn := range fns {
		// functions of the project only; synthetic wrappers/thunks are reached through
		// their use sites (kind "value")
		if fn.Pkg == nil || !strings.HasPrefix(fn.Pkg.Pkg.Path(), modPath) || fn.Synthetic != "" {
			continue
		}
		for _, b := range fn.Blocks {
			for _, ins := range b.Instrs {
				pos := l.prog.Fset.Position(ins.Pos()).String()
				pos = strings.TrimPrefix(pos, repoDir+"/")
				if ci, ok := ins.(ssa.CallInstruction); ok {
					c := ci.Common()
					switch {
					case c.IsInvoke() && c.Method.Name() == name:
						s := callSite{Caller: shortFn(fn), Pos: pos, Kind: "invoke", Callee: c.Method.FullName()}
						for _, a := range c.Args {
							s.Args = append(s.Args, renderVal(a, 0))
						}
						sites = append(sites, s)
						continue
					case isTarget(c.StaticCallee()):
						s := callSite{Caller: shortFn(fn), Pos: pos, Kind: "static", Callee: shortFn(c.StaticCallee())}
						as := c.Args
						if c.StaticCallee().Signature.Recv() != nil && len(as) > 0 {
							as = as[1:]
						}
						for _, a := range as {
							s.Args = append(s.Args, renderVal(a, 0))
						}
						sites = append(sites, s)
						continue
					}
				}
				// any other use of the function as a value
				var ops []*ssa.Value
				for _, op := range ins.Operands(ops) {
					if op == nil || *op == nil {
						continue
					}
					var f *ssa.Function
					switch x := (*op).(type) {
					case *ssa.Function:
						f = x
					case *ssa.MakeClosure:
						f, _ = x.Fn.(*ssa.Function)
					}
					if f == nil {
						continue
					}
					if isTarget(f) || (f.Synthetic != "" && strings.Contains(f.Name(), name+"$")) {
						if ci, ok := ins.(ssa.CallInstruction); ok && ci.Common().Value == *op {
							continue
						}
						sites = append(sites, callSite{Caller: shortFn(fn), Pos: pos, Kind: "value", Callee: shortFn(f)})
					}
				}
			}
		}
	}
	sort.Slice(sites, func(i, j int) bool { return sites[i].Pos < sites[j].Pos })
	ok := true
	var problems []string
	if *allow != "" {
		al := map[string]bool{}
		for _, a := range strings.Split(*allow, ",") {
			al[strings.TrimSpace(a)] = true
		}
		for _, s := range sites {
			if !al[s.Caller] || s.Kind == "value" {
				ok = false
				problems = append(problems, "call site outside the allowed functions: "+s.Caller+" at "+s.Pos)
			}
		}
	}
	if *argRule != "" {
		kv := strings.SplitN(*argRule, "=", 2)
		found := false
		for _, s := range sites {
			if s.Caller == kv[0] {
				found = true
				if len(s.Args) == 0 || s.Args[0] != kv[1] {
					ok = false
					problems = append(problems, fmt.Sprintf("argument of the call in %s at %s is %v, want %s", s.Caller, s.Pos, s.Args, kv[1]))
				}
			}
		}
		if !found {
			ok = false
			problems = append(problems, "no call site inside "+kv[0])
		}
	}
	out := map[string]any{"Name": name, "Sites": sites, "OK": ok, "Problems": problems}
	b, _ := json.MarshalIndent(out, "", " ")
	fmt.Println(string(b))
	if !ok {
		return 1
	}
	return 0
}
