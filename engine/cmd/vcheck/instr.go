package main

// Source instrumentation of the repo-level cut (DESIGN §2.5). Regenerated from
// /repo's working tree on every run, delivered through overlays only. All
// edits are line-preserving splices:
//   (1) hook prologues:  func (n *Node) f(a T) (R, error) {  →
//         { if VerifHook_Node_f != nil { return VerifHook_Node_f(n, a) }; …
//       plus a generated file declaring the hook variables;
//   (2) call-site rewrites of time.Now/Since/Sleep/… and os.* to verifnd.*.
// The same instrumented view is interpreted symbolically and compiled natively.

import (
	"bytes"
	"crypto/sha256"
	"fmt"
	"go/ast"
	"go/parser"
	"go/token"
	"os"
	"path/filepath"
	"sort"
	"strings"
)

type hookSpec struct {
	File  string   // relative to /repo
	Recv  string   // receiver type name without '*', "" for functions
	Names []string // function / method names
}

var hookSpecs = []hookSpec{
	{"internal/mysql/node.go", "Node", []string{
		"queryRowWithTimeout", "execWithTimeout", "execMogrifyWithTimeout", "queryRowMogrifyWithTimeout",
		"processQuery", "processQueryMogrify", "GetDB", "Close", "runCommand",
		"GetBinlogs", "getRunningQueryIDs", "ReenableEvents", "GetExternalReplicationSources",
		"GetDiskUsage", "IsFileSystemReadonly", "GetDaemonStartTime", "GetCrashRecoveryTime",
		"IsWaitingSemiSyncAck", "GetStartupTime", "UpdateExternalCAFile", "SetReadOnlyWithForce",
		// inner cut of the four query funnels (funcRewrites below): logging with a package-level regexp
		"traceQuery",
	}},
	{"internal/mysql/node.go", "", []string{"Mogrify"}},
	{"internal/util/util.go", "", []string{"RunParallel"}},
	{"internal/dcs/zk.go", "", []string{"retry"}},
	{"internal/app/util.go", "", []string{"getNodeStatesInParallel", "findMostRecentNodeAndDetectSplitbrain"}},
	{"internal/app/replication.go", "App", []string{"optimizationPhase", "startSyncerGoroutine"}},
	{"internal/app/timing_tracker.go", "App", []string{"logTiming"}},
	{"internal/app/app.go", "App", []string{"getLocalDaemonState", "updateActiveNodes", "performSwitchover", "baseContext",
		// cut points for whole-iteration harnesses (C05): the manager's view and the repair callees
		"getClusterStateFromDB", "repairOfflineMode", "repairCluster",
		// spy point (C07): the long wait of a switchover
		"waitForCatchUp"}},
	{"internal/app/cli_util.go", "App", []string{"cliInitApp"}},
	{"internal/util/user.go", "", []string{"GuessWhoRunning"}},
	{"internal/app/node_state/node_state.go", "DiskState", []string{"Usage"}},
	{"internal/mysql/gtids/wrapper.go", "", []string{"ParseGtidSet", "GTIDDiff"}},
	{"internal/mysql/gtids/utils.go", "", []string{"IsSplitBrained"}},
}

// call-site rewrites: selector "pkg.Name" → "verifnd.NewName"
var callRewrites = map[string]string{
	"time.Now":        "verifnd.Now",
	"time.Since":      "verifnd.Since",
	"time.Sleep":      "verifnd.Sleep",
	"time.NewTicker":  "verifnd.NewTicker",
	"time.AfterFunc":  "verifnd.AfterFunc",
	"os.WriteFile":    "verifnd.OsWriteFile",
	"os.Stat":         "verifnd.OsStat",
	"os.Remove":       "verifnd.OsRemove",
	"os.ReadFile":     "verifnd.OsReadFile",
	"os.Hostname":     "verifnd.OsHostname",
	"os.Getpid":       "verifnd.OsGetpid",
	"os.IsNotExist":   "verifnd.OsIsNotExist",
}

// directories (relative to /repo) whose non-test files get call-site rewrites
var rewriteDirs = []string{
	"internal/app", "internal/app/optimization", "internal/app/dcs", "internal/app/node_state",
	"internal/app/resetup", "internal/mysql", "internal/dcs", "internal/util",
}

// textual rewrites (applied as line-preserving splices); fail closed when a pattern is not found
type textRewrite struct {
	File     string
	From, To string
	KeepImport string // appended as `var _ = <KeepImport>` so the import stays used
}

var textRewrites = []textRewrite{
	{"internal/dcs/zk.go", "z.conn.", "verifConn(z).", ""},
	{"internal/dcs/zk.go", "json.Marshal(", "verifJSONMarshal(", "json.Marshal"},
	{"internal/dcs/zk.go", "json.Unmarshal(", "verifJSONUnmarshal(", ""},
	{"internal/dcs/zk.go", "z.closeTimer.Stop()", "verifnd.StopTimer(z.closeTimer)", ""},
}

// rewrites confined to the body of one function (recv.name): the inner cut of the query
// funnels of *Node. With the funnel's own hook set (every harness built on the fleet model)
// the rewritten code is never reached; with the hook nil the funnel body runs for real and
// only the sqlx calls, the context and the rows cursor are replaced (harness/mysql/zz_verif_funnels.go).
type funcRewrite struct {
	File, Func string
	From, To   string
}

var funcRewrites = []funcRewrite{
	{"internal/mysql/node.go", "Node.execWithTimeout", "context.WithTimeout(context.Background(), timeout)", "verifCtxWithTimeout(timeout)"},
	{"internal/mysql/node.go", "Node.execWithTimeout", "db.ExecContext(ctx, n.getQuery(querySetLockTimeout), lockTimeout)", "verifDBExec(n, db, ctx, querySetLockTimeout, lockTimeout)"},
	{"internal/mysql/node.go", "Node.execWithTimeout", "db.NamedExecContext(ctx, query, arg)", "verifDBNamedExec(n, db, ctx, queryName, arg)"},
	{"internal/mysql/node.go", "Node.execMogrifyWithTimeout", "context.WithTimeout(context.Background(), timeout)", "verifCtxWithTimeout(timeout)"},
	{"internal/mysql/node.go", "Node.execMogrifyWithTimeout", "db.ExecContext(ctx, query)", "verifDBNamedExec(n, db, ctx, queryName, arg)"},
	{"internal/mysql/node.go", "Node.queryRowWithTimeout", "context.WithTimeout(context.Background(), timeout)", "verifCtxWithTimeout(timeout)"},
	{"internal/mysql/node.go", "Node.queryRowWithTimeout", "db.NamedQueryContext(ctx, query, arg)", "verifDBQueryRow(n, db, ctx, queryName, arg, result)"},
	{"internal/mysql/node.go", "Node.queryRowMogrifyWithTimeout", "context.WithTimeout(context.Background(), timeout)", "verifCtxWithTimeout(timeout)"},
	{"internal/mysql/node.go", "Node.queryRowMogrifyWithTimeout", "db.NamedQueryContext(ctx, query, arg)", "verifDBQueryRow(n, db, ctx, queryName, arg, result)"},
}

type splice struct {
	off  int
	del  int
	text string
}

type instrInfo struct {
	Files    map[string]string // file -> sha256 of the original
	Hooks    []string
	Rewrites map[string]int
}

func instrumentRepo() (map[string][]byte, *instrInfo, error) {
	out := map[string][]byte{}
	info := &instrInfo{Files: map[string]string{}, Rewrites: map[string]int{}}
	fset := token.NewFileSet()
	hookDecls := map[string][]string{} // dir -> var decls
	hookPkg := map[string]string{}     // dir -> package name
	hookImports := map[string]map[string]bool{}
	wantHooks := map[string]map[string]bool{}
	for _, hs := range hookSpecs {
		for _, n := range hs.Names {
			if wantHooks[hs.File] == nil {
				wantHooks[hs.File] = map[string]bool{}
			}
			wantHooks[hs.File][hs.Recv+"."+n] = false
		}
	}
	seen := map[string]bool{}
	var files []string
	for _, d := range rewriteDirs {
		ents, err := os.ReadDir(filepath.Join(repoDir, d))
		if err != nil {
			return nil, nil, fmt.Errorf("instrument: %v", err)
		}
		for _, e := range ents {
			n := e.Name()
			if e.IsDir() || !strings.HasSuffix(n, ".go") || strings.HasSuffix(n, "_test.go") || strings.HasPrefix(n, "zz_verif") {
				continue
			}
			files = append(files, filepath.Join(d, n))
			seen[filepath.Join(d, n)] = true
		}
	}
	for f := range wantHooks {
		if !seen[f] {
			files = append(files, f)
		}
	}
	sort.Strings(files)
	for _, rel := range files {
		abs := filepath.Join(repoDir, rel)
		src, err := os.ReadFile(abs)
		if err != nil {
			return nil, nil, fmt.Errorf("instrument: %v", err)
		}
		af, err := parser.ParseFile(fset, abs, src, parser.ParseComments)
		if err != nil {
			return nil, nil, fmt.Errorf("instrument: parse %s: %v", rel, err)
		}
		tf := fset.File(af.Pos())
		var sp []splice
		needVerifnd := false
		// imports by local name
		imports := map[string]string{}
		for _, im := range af.Imports {
			p := strings.Trim(im.Path.Value, `"`)
			name := filepath.Base(p)
			if im.Name != nil {
				name = im.Name.Name
			}
			imports[name] = p
		}
		// (2) call-site rewrites
		ast.Inspect(af, func(n ast.Node) bool {
			se, ok := n.(*ast.SelectorExpr)
			if !ok {
				return true
			}
			id, ok := se.X.(*ast.Ident)
			if !ok || id.Obj != nil {
				return true
			}
			key := id.Name + "." + se.Sel.Name
			to, ok := callRewrites[key]
			if !ok {
				return true
			}
			if (id.Name == "time" && imports["time"] != "time") || (id.Name == "os" && imports["os"] != "os") {
				return true
			}
			sp = append(sp, splice{off: tf.Offset(se.Pos()), del: int(se.End() - se.Pos()), text: to})
			info.Rewrites[key]++
			needVerifnd = true
			return true
		})
		// (3) textual rewrites
		var keep []string
		for _, tr := range textRewrites {
			if tr.File != rel {
				continue
			}
			n := 0
			for off := 0; ; {
				k := bytes.Index(src[off:], []byte(tr.From))
				if k < 0 {
					break
				}
				sp = append(sp, splice{off: off + k, del: len(tr.From), text: tr.To})
				off += k + len(tr.From)
				n++
			}
			if n == 0 {
				return nil, nil, fmt.Errorf("instrument: pattern %q not found in %s (fail closed)", tr.From, rel)
			}
			info.Rewrites[tr.From] += n
			if strings.Contains(tr.To, "verifnd.") {
				needVerifnd = true
			}
			if tr.KeepImport != "" {
				keep = append(keep, tr.KeepImport)
			}
		}
		// (1) hook prologues
		dir := filepath.Dir(rel)
		for _, d := range af.Decls {
			fd, ok := d.(*ast.FuncDecl)
			if !ok || fd.Body == nil {
				continue
			}
			recv := ""
			recvName := ""
			if fd.Recv != nil && len(fd.Recv.List) == 1 {
				t := fd.Recv.List[0].Type
				if st, ok := t.(*ast.StarExpr); ok {
					t = st.X
				}
				if id, ok := t.(*ast.Ident); ok {
					recv = id.Name
				}
				if len(fd.Recv.List[0].Names) == 1 {
					recvName = fd.Recv.List[0].Names[0].Name
				}
			}
			key := recv + "." + fd.Name.Name
			for fi := range funcRewrites {
				fr := &funcRewrites[fi]
				if fr.File != rel || fr.Func != key && fr.Func != strings.TrimPrefix(key, ".") {
					continue
				}
				b0, b1 := tf.Offset(fd.Body.Lbrace), tf.Offset(fd.Body.Rbrace)
				k := bytes.Index(src[b0:b1], []byte(fr.From))
				if k < 0 {
					return nil, nil, fmt.Errorf("instrument: pattern %q not found in %s of %s (fail closed)", fr.From, key, rel)
				}
				if bytes.Index(src[b0+k+len(fr.From):b1], []byte(fr.From)) >= 0 {
					return nil, nil, fmt.Errorf("instrument: pattern %q occurs twice in %s of %s (fail closed)", fr.From, key, rel)
				}
				sp = append(sp, splice{off: b0 + k, del: len(fr.From), text: fr.To})
				info.Rewrites[key+": "+fr.From]++
			}
			if _, want := wantHooks[rel][key]; !want {
				continue
			}
			wantHooks[rel][key] = true
			hookName := "VerifHook_" + fd.Name.Name
			if recv != "" {
				hookName = "VerifHook_" + recv + "_" + fd.Name.Name
			}
			var ptypes, pnames []string
			if recv != "" {
				if recvName == "" || recvName == "_" {
					return nil, nil, fmt.Errorf("instrument: %s has unnamed receiver", key)
				}
				ptypes = append(ptypes, string(src[tf.Offset(fd.Recv.List[0].Type.Pos()):tf.Offset(fd.Recv.List[0].Type.End())]))
				pnames = append(pnames, recvName)
			}
			for _, p := range fd.Type.Params.List {
				ts := string(src[tf.Offset(p.Type.Pos()):tf.Offset(p.Type.End())])
				if len(p.Names) == 0 {
					return nil, nil, fmt.Errorf("instrument: %s has unnamed parameter", key)
				}
				for _, nm := range p.Names {
					if nm.Name == "_" {
						return nil, nil, fmt.Errorf("instrument: %s has blank parameter", key)
					}
					ptypes = append(ptypes, ts)
					if _, variadic := p.Type.(*ast.Ellipsis); variadic {
						pnames = append(pnames, nm.Name+"...")
					} else {
						pnames = append(pnames, nm.Name)
					}
				}
			}
			var rtypes []string
			if fd.Type.Results != nil {
				for _, r := range fd.Type.Results.List {
					ts := string(src[tf.Offset(r.Type.Pos()):tf.Offset(r.Type.End())])
					k := len(r.Names)
					if k == 0 {
						k = 1
					}
					for j := 0; j < k; j++ {
						rtypes = append(rtypes, ts)
					}
				}
			}
			sig := "func(" + strings.Join(ptypes, ", ") + ")"
			if len(rtypes) > 0 {
				sig += " (" + strings.Join(rtypes, ", ") + ")"
			}
			hookDecls[dir] = append(hookDecls[dir], fmt.Sprintf("var %s %s", hookName, sig))
			hookPkg[dir] = af.Name.Name
			if hookImports[dir] == nil {
				hookImports[dir] = map[string]bool{}
			}
			// imports the signature text may need
			for name, path := range imports {
				if strings.Contains(sig, name+".") {
					imp := fmt.Sprintf("%q", path)
					if filepath.Base(path) != name {
						imp = name + " " + imp
					}
					hookImports[dir][imp] = true
				}
			}
			callTxt := hookName + "(" + strings.Join(pnames, ", ") + ")"
			var pro string
			if len(rtypes) > 0 {
				pro = fmt.Sprintf(" if %s != nil { return %s };", hookName, callTxt)
			} else {
				pro = fmt.Sprintf(" if %s != nil { %s; return };", hookName, callTxt)
			}
			sp = append(sp, splice{off: tf.Offset(fd.Body.Lbrace) + 1, text: pro})
			info.Hooks = append(info.Hooks, rel+":"+key)
		}
		if len(sp) == 0 {
			continue
		}
		if needVerifnd {
			// line-preserving import: appended to the package clause line
			off := tf.Offset(af.Name.End())
			sp = append(sp, splice{off: off, text: `; import verifnd "` + modPath + `/internal/verifnd"`})
		}
		sort.SliceStable(sp, func(i, j int) bool { return sp[i].off < sp[j].off })
		var buf bytes.Buffer
		last := 0
		for _, s := range sp {
			buf.Write(src[last:s.off])
			buf.WriteString(s.text)
			last = s.off + s.del
		}
		buf.Write(src[last:])
		// keep imports used after rewriting
		if needVerifnd {
			if imports["time"] == "time" {
				buf.WriteString("\nvar _ = time.Nanosecond\n")
			}
			if imports["os"] == "os" {
				buf.WriteString("\nvar _ = os.Getenv\n")
			}
		}
		for _, k := range keep {
			buf.WriteString("\nvar _ = " + k + "\n")
		}
		out[abs] = buf.Bytes()
		info.Files[rel] = fmt.Sprintf("%x", sha256.Sum256(src))
	}
	for f, m := range wantHooks {
		for k, found := range m {
			if !found {
				return nil, nil, fmt.Errorf("instrument: hook target %s not found in %s (fail closed)", k, f)
			}
		}
	}
	for dir, decls := range hookDecls {
		var buf bytes.Buffer
		fmt.Fprintf(&buf, "// Code generated by vcheck (instrumenter). DO NOT EDIT.\npackage %s\n\n", hookPkg[dir])
		var imps []string
		for im := range hookImports[dir] {
			imps = append(imps, im)
		}
		sort.Strings(imps)
		if len(imps) > 0 {
			buf.WriteString("import (\n")
			for _, im := range imps {
				fmt.Fprintf(&buf, "\t%s\n", im)
			}
			buf.WriteString(")\n\n")
		}
		sort.Strings(decls)
		for _, d := range decls {
			buf.WriteString(d + "\n")
		}
		out[filepath.Join(repoDir, dir, "zz_verif_hooks_gen.go")] = buf.Bytes()
	}
	sort.Strings(info.Hooks)
	return out, info, nil
}
