package main

import (
	"encoding/json"
	"fmt"
	"os"
	"path/filepath"
	"time"
)

// Registry of properties → obligations (harness entry points), bounds per tier,
// vacuity witnesses, assumptions. See DESIGN.md §7 and Appendix A.

var properties = map[string]*property{}

func reg(p *property) { properties[p.ID] = p }

// JSON registry: /verif/registry/Cxx.json (same fields as the property struct;
// tier parameters as {"Params":{...},"MaxPaths":n,"Unwind":n,"TimeoutS":n}).
type jsonTier struct {
	Params   map[string]int
	MaxPaths int
	Unwind   int
	MaxSteps int
	TimeoutS int
	SolverMs int
}

type jsonObligation struct {
	Pkg, Entry, Solver string
	Quick, Thorough    jsonTier
	Witnesses          []string
	RecursionLimits    map[string]int
}

type jsonProperty struct {
	ID          string
	Obligations []jsonObligation
	Assumptions []string
	Outside     []string
	Encoded     []string
	Intercepted []string
	FleetModel  bool // append the standard fleet/DCS assumptions and intercept list
}

func (t jsonTier) cfg() tierCfg {
	return tierCfg{Params: t.Params, MaxPaths: t.MaxPaths, Unwind: t.Unwind, MaxSteps: t.MaxSteps, SolverMs: t.SolverMs, Timeout: time.Duration(t.TimeoutS) * time.Second}
}

func loadJSONRegistry(fleetAssume, fleetIntercepted []string) {
	files, _ := filepath.Glob(filepath.Join(verifDir, "registry", "C*.json"))
	for _, f := range files {
		b, err := os.ReadFile(f)
		if err != nil {
			continue
		}
		var jp jsonProperty
		if err := json.Unmarshal(b, &jp); err != nil {
			fmt.Fprintf(os.Stderr, "registry %s: %v\n", f, err)
			os.Exit(2)
		}
		p := &property{ID: jp.ID, Assumptions: jp.Assumptions, Outside: jp.Outside, Encoded: jp.Encoded, Intercepted: jp.Intercepted}
		if jp.FleetModel {
			p.Assumptions = append(p.Assumptions, fleetAssume...)
			p.Intercepted = append(p.Intercepted, fleetIntercepted...)
		}
		for _, o := range jp.Obligations {
			p.Obligations = append(p.Obligations, obligation{Pkg: o.Pkg, Entry: o.Entry, Solver: o.Solver, Quick: o.Quick.cfg(), Thorough: o.Thorough.cfg(),
				Witnesses: o.Witnesses, RecursionLimits: o.RecursionLimits})
		}
		reg(p)
	}
}

func init() {
	reg(&property{
		ID: "C12",

		Obligations: []obligation{
			{Pkg: "mysql", Entry: "H_C12_arith", Witnesses: []string{"C12.arith"}},
			{Pkg: "mysql", Entry: "H_C12_check", Witnesses: []string{"C12.check.err", "C12.check.nil"}},
		},
		Encoded: []string{"(*mysql.SwitchHelper).GetRequiredWaitSlaveCount", "(*mysql.SwitchHelper).GetFailoverQuorum",
			"(*mysql.SwitchHelper).CheckFailoverQuorum", "mysql.NewSwitchHelper"},
		Assumptions: []string{
			"list size n and configured count w range over [0, 2^62] (signed 64-bit ints as in the build); permissible count p over [0, 2^62]",
			"the list is an opaque slice: only len() is observable (any other use is an engine error)",
			"fmt.Errorf is an engine intrinsic (message text not inspected)",
		},
		Outside: []string{"negative configured counts (config validation is not part of this property)", "n > 2^62"},
	})
	reg(&property{
		ID: "C13",

		Obligations: []obligation{
			{Pkg: "mysql/gtids", Entry: "H_C13_relations", Witnesses: []string{"C13.behind", "C13.ahead"},
				Quick: tierCfg{Params: map[string]int{"uuids": 2, "tags": 1, "intervals": 2}}, Thorough: tierCfg{Params: map[string]int{"uuids": 2, "tags": 1, "intervals": 3}}},
			{Pkg: "mysql/gtids", Entry: "H_C13_relations_tags", Witnesses: []string{"C13.behind", "C13.ahead"},
				Quick: tierCfg{Params: map[string]int{"uuids": 1, "tags": 2, "intervals": 1}}, Thorough: tierCfg{Params: map[string]int{"uuids": 1, "tags": 2, "intervals": 2}}},
			{Pkg: "mysql/gtids", Entry: "H_C13_split", Witnesses: []string{"C13.split", "C13.nosplit"},
				Quick: tierCfg{Params: map[string]int{"uuids": 2, "tags": 1, "intervals": 2}}, Thorough: tierCfg{Params: map[string]int{"uuids": 1, "tags": 2, "intervals": 2}}},
			{Pkg: "mysql/gtids", Entry: "H_C13_minus_slice", Witnesses: []string{"C13.minus.empty", "C13.minus.nonempty"},
				Quick: tierCfg{Params: map[string]int{"intervals": 2}}, Thorough: tierCfg{Params: map[string]int{"intervals": 3}}},
			{Pkg: "mysql/gtids", Entry: "H_C13_diff", Witnesses: []string{"C13.diff.equal", "C13.diff.source-ahead", "C13.diff.split", "C13.diff.replica-ahead"},
				Quick: tierCfg{Params: map[string]int{"uuids": 2, "tags": 1, "intervals": 1}}, Thorough: tierCfg{Params: map[string]int{"uuids": 1, "tags": 1, "intervals": 2}}},
			{Pkg: "mysql/gtids", Entry: "H_C13_diff_tags", Witnesses: []string{"C13.diff.equal", "C13.diff.source-ahead", "C13.diff.split", "C13.diff.replica-ahead"},
				Quick: tierCfg{Params: map[string]int{"uuids": 1, "tags": 2, "intervals": 1}}, Thorough: tierCfg{Params: map[string]int{"uuids": 1, "tags": 2, "intervals": 1}}},
			{Pkg: "app", Entry: "H_C13_most_recent", Witnesses: []string{"C13.recent.split", "C13.recent.max"},
				Quick: tierCfg{Params: map[string]int{"max_n": 3, "gtid_bits": 3}}, Thorough: tierCfg{Params: map[string]int{"max_n": 5, "gtid_bits": 4}}},
		},
		Encoded: []string{"app.findMostRecentNodeAndDetectSplitbrain", "app.detectSplitbrain", "mysql/gtids.IsSlaveBehindOrEqual", "mysql/gtids.IsSlaveAhead", "mysql/gtids.IsSplitBrained", "mysql/gtids.intervalSliceMinus",
			"mysql/gtids.mysqlGTIDSetMinus", "mysql/gtids.GTIDDiff"},
		Assumptions: []string{
			"GTID sets satisfy R (what ParseMysqlGTIDSet/Normalize guarantee): present UUID has >=1 tag, tag has >=1 interval, intervals sorted, 1<=Start<Stop<=2^62, Start[i+1]>Stop[i]",
			"(*MysqlGTIDSet).String is an intrinsic: \"\" iff the set has no keys, otherwise an opaque token (text printing outside the claim)",
			"map iteration in insertion order (one order)",
		},
		Outside: []string{"text parsing/printing of GTID sets", "sets violating R", "more UUIDs/tags/intervals than the stated bounds"},
	})
	c14rec := map[string]int{modPath + "/internal/app.getMostDesirableNode": 7}
	reg(&property{
		ID: "C14",

		Obligations: []obligation{
			{Pkg: "app", Entry: "H_C14_choice", Witnesses: []string{"C14.empty", "C14.choice.multi"}, RecursionLimits: c14rec, Solver: "cvc5",
				Quick: tierCfg{Params: map[string]int{"max_n": 3, "gtid_bits": 3}}, Thorough: tierCfg{Params: map[string]int{"max_n": 3, "gtid_bits": 4}}},
			{Pkg: "app", Entry: "H_C14_from_filter", Witnesses: []string{"C14.filter.chosen", "C14.filter.none"}, RecursionLimits: c14rec, Solver: "cvc5",
				Quick: tierCfg{Params: map[string]int{"max_n": 3}}, Thorough: tierCfg{Params: map[string]int{"max_n": 3}}},
			{Pkg: "app", Entry: "H_C14_vs_most_recent", Witnesses: []string{"C14.mr.agree", "C14.mr.split"}, RecursionLimits: c14rec, Solver: "cvc5",
				Quick: tierCfg{Params: map[string]int{"max_n": 3, "gtid_bits": 3}}, Thorough: tierCfg{Params: map[string]int{"max_n": 5, "gtid_bits": 4}}},
		},
		Encoded: []string{"app.getMostDesirableNode", "app.getMostPriorityNode", "app.filterOutNodeFromPositions", "app.findMostRecentNodeAndDetectSplitbrain"},
		Assumptions: []string{
			"lags are arbitrary non-NaN float64 (incl. ±Inf and 99999999); priorities arbitrary int64; GTID sets are bit-sets (all inclusion patterns over <=3 transactions)",
			"the lag bound is a non-negative time.Duration; Duration.Seconds() is modelled as an arbitrary finite float of the same sign, zero iff the duration is zero",
			"termination: more than n+1<=7 simultaneous activations of getMostDesirableNode on a feasible path is reported as a violation",
			"zerolog calls are empty stubs",
		},
		Outside: []string{"NaN lags", "more than 4 candidates", "negative lag bound"},
	})
	fleetAssume := []string{
		"fake MySQL fleet at the query-funnel level (DESIGN §3.1): statements take effect as their SQL text in queries.go says; every exported *mysql.Node method runs for real on top",
		"fake coordination store at the dcs.DCS interface (DESIGN §3.2a), typed values, JSON encode/decode assumed lossless; the real appDCS/app_dcs.go/mysql.Cluster run on top",
		"zerolog calls are empty stubs; RunParallel/getNodeStatesInParallel run their closures sequentially in argument order",
	}
	fleetIntercepted := []string{"(*mysql.Node).queryRowWithTimeout", "(*mysql.Node).execWithTimeout", "(*mysql.Node).execMogrifyWithTimeout", "(*mysql.Node).queryRowMogrifyWithTimeout",
		"(*mysql.Node).SetReadOnlyWithForce (collapsed to one forced attempt through the real setReadonlyWithTimeout)", "(*mysql.Node).GetBinlogs", "(*mysql.Node).ReenableEvents",
		"(*mysql.Node).IsWaitingSemiSyncAck", "(*mysql.Node).GetStartupTime", "(*mysql.Node).GetDiskUsage", "(*mysql.Node).IsFileSystemReadonly", "util.RunParallel", "app.getNodeStatesInParallel",
		"(*app.App).logTiming", "(*app.App).getLocalDaemonState", "dcs.DCS (zkDCS) → fake store", "time.Now/Since/Sleep → symbolic clock", "os.WriteFile/Stat/Remove → fake files"}
	reg(&property{
		ID: "C18",
		Obligations: []obligation{
			{Pkg: "app", Entry: "H_C18_usage", Witnesses: []string{"C18.usage"}, Solver: "cvc5"},
			{Pkg: "app", Entry: "H_C18_usage_exact", Witnesses: []string{"C18.usage.exact"}, Solver: "cvc5",
				Quick: tierCfg{Params: map[string]int{"bits": 10}}, Thorough: tierCfg{Params: map[string]int{"bits": 14}, SolverMs: 600000}},
			{Pkg: "config", Entry: "H_C18_config", Witnesses: []string{"C18.config.valid", "C18.config.rejected"}, Solver: "cvc5"},
			{Pkg: "app", Entry: "H_C18_decision", Witnesses: []string{"C18.ro", "C18.rw", "C18.untouched"},
				Quick: tierCfg{Params: map[string]int{"max_replicas": 2, "faults": 0}}},
			{Pkg: "app", Entry: "H_C18_decision_faults", Witnesses: []string{"C18.faulted"},
				Quick: tierCfg{Params: map[string]int{"max_replicas": 1, "faults": 1}}, Thorough: tierCfg{Params: map[string]int{"max_replicas": 3, "faults": 1}}},
		},
		Encoded: []string{"(*config.Config).Validate", "(*config.Config).SetDynamicDefaults", "(*app.App).repairReadOnlyOnMaster", "(app/node_state.DiskState).Usage", "(*mysql.Node).SetWritable", "(*mysql.Node).setReadonlyWithTimeout", "(*app.appDCS).SetLowSpace"},
		Assumptions: append([]string{
			"thresholds are arbitrary non-NaN floats with not_critical <= critical (Config.Validate); per-host usage is an arbitrary non-NaN float — the contract of DiskState.Usage, itself decided over all uint64 pairs by H_C18_usage (assume/guarantee)",
			"H_C18_usage_exact: Usage() against exact integer arithmetic at the half-percent thresholds k/2 for k in {1,100,181,191,199,200}, used <= total < 2^10 (thorough 2^14); larger disk sizes and other thresholds are outside this obligation (the FP division is the solver's limit: 2^20 returned unknown after 5 min in z3 and cvc5)",
			"reading decision: a missing master disk report makes the master-usage conjunct vacuous (the code deliberately wishes the master writable before reports arrive)",
			"the manager's view of the master satisfies super_read_only ⇒ read_only",
		}, fleetAssume...),
		Intercepted: append([]string{"(node_state.DiskState).Usage in the decision harness (replaced by its verified contract)"}, fleetIntercepted...),
		Outside:     []string{"more than 3 replicas", "more than one failing call"},
	})
	reg(&property{
		ID: "C04",
		Obligations: []obligation{
			{Pkg: "app", Entry: "H_C04_update_active", Witnesses: []string{"C04.completed", "C04.grew", "C04.shrank", "C04.evicted"},
				Quick:    tierCfg{Params: map[string]int{"replicas": 2, "max_w": 1, "faults": 0, "symmetry": 1}},
				Thorough: tierCfg{Params: map[string]int{"replicas": 2, "max_w": 2, "faults": 0, "symmetry": 0, "cascade": 1}}},
			{Pkg: "app", Entry: "H_C04_update_active_faults", Witnesses: []string{"C04.evicted"},
				Quick:    tierCfg{Params: map[string]int{"replicas": 1, "max_w": 1, "faults": 1}},
				Thorough: tierCfg{Params: map[string]int{"replicas": 2, "max_w": 1, "faults": 1, "symmetry": 1}}},
			{Pkg: "app", Entry: "H_C04_evict_guard", Witnesses: []string{"C04.evicted", "C04.grew", "C04.master-died"},
				Quick:    tierCfg{Params: map[string]int{"replicas": 2, "max_w": 1, "faults": 1, "fault_only_ping": 1, "symmetry": 0, "async": 1, "kill_master": 1, "kill_points": 12, "classes": 1 | 1<<6 | 1<<8}},
				Thorough: tierCfg{Params: map[string]int{"replicas": 2, "max_w": 2, "faults": 1, "fault_only_ping": 1, "symmetry": 0, "async": 1, "kill_master": 1, "kill_points": 20}}},
			{Pkg: "app", Entry: "H_C04_not_replicating", Witnesses: []string{"C04.not-replicating", "C04.shrank"},
				Quick:    tierCfg{Params: map[string]int{"replicas": 2, "max_w": 1, "faults": 0, "symmetry": 1, "second_pass": 1, "classes": 1 | 1<<7 | 1<<8 | 1<<9 | 1<<10 | 1<<11}},
				Thorough: tierCfg{Params: map[string]int{"replicas": 2, "max_w": 2, "faults": 0, "symmetry": 0, "second_pass": 1, "classes": 1 | 1<<7 | 1<<8 | 1<<9 | 1<<10 | 1<<11}}},
			{Pkg: "app", Entry: "H_C04_set_recovery", Witnesses: []string{"C04.recovery.marked", "C04.recovery.failed"},
				Quick: tierCfg{Params: map[string]int{"dcs_faults": 1}}, Thorough: tierCfg{Params: map[string]int{"dcs_faults": 2}}},
		},
		Encoded: []string{"(*app.App).updateActiveNodes", "(*app.App).calcActiveNodes", "(*app.App).calcActiveNodesChanges", "(*app.App).adjustSemiSyncOnMaster",
			"(*app.App).enableSemiSyncOnSlave", "(*app.App).disableSemiSyncOnSlave", "(*app.App).canShrinkActiveNodes", "(*app.App).SetRecovery", "app.calcLagBytes",
			"(*mysql.SwitchHelper).GetRequiredWaitSlaveCount"},
		Assumptions: append([]string{
			"pre-state: master m healthy and writable holding GTID {t0}; each replica in one of 10 classes (running ⊆ / diverged / ahead-by-own-uuid / marked / download-lagging with IO moving / stalled / unreachable / not a replica / stopped / error), semi-sync flag arbitrary, old published list = m + arbitrary subset; master semi-sync flag and wait count arbitrary (0..2); both adjust orders; w in 1..max_w",
			"the manager's cluster state is produced by the real getClusterStateFromDB on the ground truth (no staleness inside this obligation); health records equal it except for unreachable replicas (record good or bad, failing timer arbitrary)",
			"checkpoint assertions after every mutating MySQL statement and coordination write = crash or failing call at any point; fault obligation: one failing or applied-but-reply-lost MySQL call",
			"reading decision: 'not replicating beyond the inactivation delay' is only asserted for unreachable replicas with a bad health record (an unreachable replica with a good record may be replicating fine)",
		}, fleetAssume...),
		Intercepted: fleetIntercepted,
		Outside:     []string{"more than 2 replicas (+1 cascade)", "optimisation controller effects beyond the registry write", "maintenance / switch pending (exempt by the statement)", "SemiSync=false configuration"},
	})
	reg(&property{
		ID: "C15",
		Obligations: []obligation{
			{Pkg: "dcs", Entry: "H_C15_op_step", Witnesses: []string{"C15.create.exists", "C15.create.ok", "C15.create.noparent", "C15.set.overwrite", "C15.set.create-with-parents",
				"C15.set.plain-to-ephemeral-refused", "C15.set.under-ephemeral", "C15.get.notfound", "C15.get.malformed", "C15.get.ok", "C15.delete.absent", "C15.delete.nonempty", "C15.delete.ok",
				"C15.children.notfound", "C15.children.ok"}},
			{Pkg: "dcs", Entry: "H_C15_fullpath_bytes", Witnesses: []string{"C15.fullpath"},
				Quick: tierCfg{Params: map[string]int{"path_bytes": 7}}, Thorough: tierCfg{Params: map[string]int{"path_bytes": 10}}},
			{Pkg: "dcs", Entry: "H_C15_retry", Witnesses: []string{"C15.retry.refused", "C15.retry.taken"},
				Quick: tierCfg{Params: map[string]int{"zk_faults": 1}}, Thorough: tierCfg{Params: map[string]int{"zk_faults": 2}}},
			{Pkg: "dcs", Entry: "H_C15_retry_write", Witnesses: []string{"C15.retry-write.faulted", "C15.retry-write.created", "C15.retry-write.exists"},
				Quick: tierCfg{Params: map[string]int{"zk_faults": 1}}, Thorough: tierCfg{Params: map[string]int{"zk_faults": 2}}},
			{Pkg: "dcs", Entry: "H_C15_ephemeral_lifetime", Witnesses: []string{"C15.ephemeral"}},
		},
		Encoded: []string{"(*dcs.zkDCS).create", "(*dcs.zkDCS).set", "(*dcs.zkDCS).Get", "(*dcs.zkDCS).Delete", "(*dcs.zkDCS).GetChildren", "(*dcs.zkDCS).buildFullPath", "(*dcs.zkDCS).makePath",
			"(*dcs.zkDCS).retryRequestInternal", "(*dcs.zkDCS).retryGet", "(*dcs.zkDCS).retryCreate", "(*dcs.zkDCS).retrySet", "(*dcs.zkDCS).retryDelete", "(*dcs.zkDCS).retryChildren"},
		Assumptions: []string{
			"fake ZooKeeper server (DESIGN §3.2b): znodes with data/version/ephemeral owner, rules for create/set(version)/delete(version)/get/children, ephemerals have no children and vanish with their session — this IS the reference tree (trusted)",
			"one operation from an arbitrary tree over keys {a, a/b, a/b/c, d} (each absent/plain/ephemeral of this or another session, consistent with parents), 6 spellings with redundant slashes; sequences of operations and numbers of clients follow by induction on the tree",
			"calls of zk.go on *zk.Conn are redirected to the fake (`z.conn.`→`verifConn(z).`); json.Marshal/Unmarshal replaced by a hand JSON codec for string/LockOwner/struct{} that is cross-checked against encoding/json in every native replay; dcs.retry replaced by a bounded loop honouring backoff.Permanent",
			"buildFullPath: all byte strings over {'/','x','y'} up to the stated length, concretely enumerated by the engine (no solver needed: every value is a decision)",
		},
		Intercepted: []string{"*zk.Conn methods Get/Set/Create/Delete/Children (fake server)", "encoding/json.Marshal/Unmarshal in zk.go", "dcs.retry (backoff)", "zerolog"},
		Outside:     []string{"concurrent modification between the sub-requests of one operation", "JSON fidelity for other types", "ACL/TLS/host provider", "GetTree", "session-timeout timing (the server ends sessions; when is outside)"},
	})
	loadJSONRegistry(fleetAssume, fleetIntercepted)
}
