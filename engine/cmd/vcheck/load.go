package main

import (
	"fmt"
	"os"
	"path/filepath"
	"strings"
	"time"

	"golang.org/x/tools/go/packages"
	"golang.org/x/tools/go/ssa"
	"golang.org/x/tools/go/ssa/ssautil"
)

const modPath = "github.com/yandex/mysync"

// repoDir / verifDir / harnessDir can be redirected (development aid: trying a harness or a
// mutant in a scratch copy, running a long sweep from a snapshot of /verif). Registered
// checks always use the defaults.
var (
	verifDir   = envOr("VERIF_DIR", "/verif")
	repoDir    = envOr("VERIF_REPO", "/repo")
	harnessDir = envOr("VERIF_HARNESS", verifDir+"/harness")
)

func envOr(k, def string) string {
	if v := os.Getenv(k); v != "" {
		return v
	}
	return def
}

// buildOverlay maps /verif/harness/<rel> to /repo/internal/<rel> and adds the
// instrumented views of repo files (see instr.go).
func buildOverlay(instrumented map[string][]byte) (map[string][]byte, []string, error) {
	ov := map[string][]byte{}
	var files []string
	err := filepath.Walk(harnessDir, func(p string, info os.FileInfo, err error) error {
		if err != nil {
			return err
		}
		if info.IsDir() || !strings.HasSuffix(p, ".go") {
			return nil
		}
		rel, _ := filepath.Rel(harnessDir, p)
		b, err := os.ReadFile(p)
		if err != nil {
			return err
		}
		dst := filepath.Join(repoDir, "internal", rel)
		ov[dst] = b
		files = append(files, dst)
		return nil
	})
	for k, v := range instrumented {
		ov[k] = v
	}
	return ov, files, err
}

type loaded struct {
	prog  *ssa.Program
	pkgs  []*packages.Package
	spkgs []*ssa.Package
	loadS float64
}

func loadProgram(patterns []string, overlay map[string][]byte, tests bool) (*loaded, error) {
	t0 := time.Now()
	cfg := &packages.Config{
		Mode:    packages.LoadAllSyntax,
		Dir:     repoDir,
		Overlay: overlay,
		Tests:   tests,
		Env:     goEnv(),
	}
	pkgs, err := packages.Load(cfg, patterns...)
	if err != nil {
		return nil, err
	}
	var errs []string
	packages.Visit(pkgs, nil, func(p *packages.Package) {
		for _, e := range p.Errors {
			if strings.HasPrefix(p.PkgPath, modPath) {
				errs = append(errs, e.Error())
			}
		}
	})
	if len(errs) > 0 {
		return nil, fmt.Errorf("load errors:\n%s", strings.Join(errs, "\n"))
	}
	prog, spkgs := ssautil.AllPackages(pkgs, ssa.InstantiateGenerics|ssa.SanityCheckFunctions*0)
	prog.Build()
	return &loaded{prog: prog, pkgs: pkgs, spkgs: spkgs, loadS: time.Since(t0).Seconds()}, nil
}

func (l *loaded) findFunc(pkgPath, name string) *ssa.Function {
	for _, p := range l.prog.AllPackages() {
		if p.Pkg.Path() == pkgPath {
			if f := p.Func(name); f != nil {
				return f
			}
		}
	}
	return nil
}

const goRoot126 = "/opt/veriftools/go1.26.8"

// goEnv is the environment for every go subprocess (offline, go1.26.8 first on PATH).
func goEnv() []string {
	var env []string
	for _, e := range os.Environ() {
		if strings.HasPrefix(e, "PATH=") || strings.HasPrefix(e, "GOFLAGS=") || strings.HasPrefix(e, "GOPROXY=") ||
			strings.HasPrefix(e, "GOSUMDB=") || strings.HasPrefix(e, "GOTOOLCHAIN=") || strings.HasPrefix(e, "GOROOT=") {
			continue
		}
		env = append(env, e)
	}
	return append(env, "PATH="+goRoot126+"/bin:"+os.Getenv("PATH"), "GOFLAGS=-mod=mod", "GOPROXY=off", "GOSUMDB=off", "GOTOOLCHAIN=local")
}
