package main

import (
	"encoding/json"
	"flag"
	"fmt"
	"os"
	"strings"

	"verif/engine/symx"
)

func usage() {
	fmt.Fprintln(os.Stderr, "usage: vcheck run <Cxx> [--tier quick|thorough] | vcheck replay <file> | vcheck explore <pkg> <func> | vcheck selftest")
	os.Exit(2)
}

func main() {
	// every go subprocess: offline, go1.26.8 first on PATH
	os.Setenv("PATH", goRoot126+"/bin:"+os.Getenv("PATH"))
	os.Setenv("GOFLAGS", "-mod=mod")
	os.Setenv("GOPROXY", "off")
	os.Setenv("GOSUMDB", "off")
	os.Setenv("GOTOOLCHAIN", "local")
	os.Unsetenv("GOROOT")
	if len(os.Args) < 2 {
		usage()
	}
	switch os.Args[1] {
	case "explore":
		cmdExplore(os.Args[2:])
	case "run":
		os.Exit(cmdRun(os.Args[2:]))
	case "replay":
		os.Exit(cmdReplay(os.Args[2:]))
	case "selftest":
		os.Exit(cmdSelftest(os.Args[2:]))
	case "callers":
		os.Exit(cmdCallers(os.Args[2:]))
	case "list":
		// the registry as JSON (DESIGN.md appendix is generated from it: tools/gen_inventory.py)
		b, _ := json.MarshalIndent(properties, "", " ")
		fmt.Println(string(b))
	default:
		usage()
	}
}

// cmdExplore: debugging aid — explore one harness entry and dump the report.
func cmdExplore(args []string) {
	fs := flag.NewFlagSet("explore", flag.ExitOnError)
	trace := fs.Bool("trace", false, "trace instructions")
	workers := fs.Int("workers", 16, "workers")
	maxPaths := fs.Int("max-paths", 0, "max paths")
	params := fs.String("params", "", "k=v,k=v")
	noinstr := fs.Bool("noinstr", false, "skip instrumentation")
	solver := fs.String("solver", "z3", "z3|z3-new|cvc5")
	keep := fs.Int("keep", 0, "number of path samples (events, decisions) to keep in the report")
	fs.Parse(args)
	rest := fs.Args()
	if len(rest) < 2 {
		usage()
	}
	pkg, fn := rest[0], rest[1]
	if !strings.Contains(pkg, "/") || !strings.HasPrefix(pkg, "github.com") {
		pkg = modPath + "/internal/" + pkg
	}
	var instrumented map[string][]byte
	if !*noinstr {
		var err error
		instrumented, _, err = instrumentRepo()
		if err != nil {
			fmt.Fprintln(os.Stderr, "instrument:", err)
			os.Exit(2)
		}
	}
	ov, _, err := buildOverlay(instrumented)
	if err != nil {
		fmt.Fprintln(os.Stderr, err)
		os.Exit(2)
	}
	l, err := loadProgram([]string{pkg}, ov, false)
	if err != nil {
		fmt.Fprintln(os.Stderr, err)
		os.Exit(2)
	}
	f := l.findFunc(pkg, fn)
	if f == nil {
		fmt.Fprintf(os.Stderr, "no function %s in %s\n", fn, pkg)
		os.Exit(2)
	}
	cfg := symx.Config{Workers: *workers, Trace: *trace, MaxPaths: *maxPaths, SampleModels: 2, Params: parseParams(*params), Solver: *solver, KeepSamples: *keep}
	sh := symx.NewShared(l.prog)
	rep := symx.Explore(l.prog, sh, f, cfg)
	rep.Funcs = trimFuncs(rep.Funcs)
	b, _ := json.MarshalIndent(rep, "", " ")
	fmt.Println(string(b))
	fmt.Fprintf(os.Stderr, "load %.1fs explore %.1fs paths %d ends %v violations %d engine-errors %d\n", l.loadS, rep.WallS, rep.Paths, rep.Ends, len(rep.Violations), len(rep.EngineErrors))
}

func parseParams(s string) map[string]int {
	m := map[string]int{}
	for _, kv := range strings.Split(s, ",") {
		if kv == "" {
			continue
		}
		var k string
		var v int
		parts := strings.SplitN(kv, "=", 2)
		if len(parts) == 2 {
			k = parts[0]
			fmt.Sscanf(parts[1], "%d", &v)
			m[k] = v
		}
	}
	return m
}

func trimFuncs(m map[string]int) map[string]int {
	out := map[string]int{}
	for k, v := range m {
		if strings.Contains(k, "mysync") {
			out[strings.ReplaceAll(k, modPath+"/internal/", "")] = v
		}
	}
	return out
}
