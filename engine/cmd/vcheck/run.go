package main

import (
	"crypto/sha256"
	"encoding/json"
	"flag"
	"fmt"
	"os"
	"path/filepath"
	"sort"
	"strconv"
	"strings"
	"time"

	"verif/engine/smt"
	"verif/engine/symx"
)

type tierCfg struct {
	Params   map[string]int
	MaxPaths int
	Unwind   int
	MaxSteps int
	Timeout  time.Duration // exploration deadline per obligation
	SolverMs int
}

type obligation struct {
	Pkg       string // package under internal/, e.g. "mysql"
	Entry     string
	Quick     tierCfg
	Thorough  tierCfg
	Witnesses []string
	Solver    string // "" = z3; "cvc5" for FP-heavy obligations
	RecursionLimits map[string]int
	// self test only: violations that MUST be found and reproduced natively; solvers to diff
	Expect      []string
	DiffSolvers []string
	// AllowPanics: target panics on a path are findings of this property
	// (default true: any reachable panic of the real code is reported).
}

type property struct {
	ID          string
	Obligations []obligation
	Assumptions []string
	Outside     []string
	Encoded     []string // real functions the claim is about (must be executed ≥ once)
	Intercepted []string
	NoInstr     bool
	SelfTest    bool // the engine's own regression suite (vcheck selftest): no evidence file, expected violations
}

type knownFinding struct {
	Property string            `json:"property"`
	Status   string            `json:"status"` // open | fixed
	Assert   string            `json:"assert"`
	Facts    map[string]string `json:"facts,omitempty"`
	What     string            `json:"what"`
	Input    string            `json:"input,omitempty"`
	Commit   string            `json:"commit,omitempty"`
}

type knownFile struct {
	Version  int            `json:"version"`
	Findings []knownFinding `json:"findings"`
}

func loadKnown() *knownFile {
	var k knownFile
	b, err := os.ReadFile(filepath.Join(verifDir, "KNOWN_FINDINGS.json"))
	if err != nil {
		return &k
	}
	if err := json.Unmarshal(b, &k); err != nil {
		fmt.Fprintln(os.Stderr, "KNOWN_FINDINGS.json:", err)
		os.Exit(2)
	}
	return &k
}

func (k *knownFile) match(prop string, v *symx.Violation) *knownFinding {
	for i := range k.Findings {
		f := &k.Findings[i]
		if f.Status != "open" || f.Property != prop || f.Assert != v.ID {
			continue
		}
		ok := true
		for fk, fv := range f.Facts {
			if m, _ := filepath.Match(fv, v.Facts[fk]); !m && v.Facts[fk] != fv {
				ok = false
			}
		}
		if ok {
			return f
		}
	}
	return nil
}

func cmdRun(args []string) int {
	fs := flag.NewFlagSet("run", flag.ExitOnError)
	tier := fs.String("tier", "quick", "quick|thorough")
	only := fs.String("only", "", "run only this obligation entry")
	noReplay := fs.Bool("no-replay", false, "skip native replay / cross validation (debug)")
	verbose := fs.Bool("v", false, "verbose")
	var id string
	if len(args) > 0 && !strings.HasPrefix(args[0], "-") {
		id = args[0]
		args = args[1:]
	}
	fs.Parse(args)
	if id == "" && fs.NArg() > 0 {
		id = fs.Arg(0)
	}
	if t := os.Getenv("VERIF_TIER"); t == "quick" || t == "thorough" {
		*tier = t
	}
	seed := 0
	if s := os.Getenv("VERIF_SEED"); s != "" {
		seed, _ = strconv.Atoi(s)
	}
	prop, ok := properties[id]
	if !ok {
		fmt.Fprintf(os.Stderr, "unknown property %q\n", id)
		return 2
	}
	t0 := time.Now()
	known := loadKnown()

	var instrumented map[string][]byte
	var iinfo *instrInfo
	{
		var err error
		instrumented, iinfo, err = instrumentRepo()
		if err != nil {
			fmt.Fprintln(os.Stderr, "ENGINE-ERROR instrument:", err)
			return 2
		}
	}
	ov, _, err := buildOverlay(instrumented)
	if err != nil {
		fmt.Fprintln(os.Stderr, "ENGINE-ERROR overlay:", err)
		return 2
	}
	pkgSet := map[string]bool{}
	for _, ob := range prop.Obligations {
		pkgSet[modPath+"/internal/"+ob.Pkg] = true
	}
	var patterns []string
	for p := range pkgSet {
		patterns = append(patterns, p)
	}
	sort.Strings(patterns)
	l, err := loadProgram(patterns, ov, false)
	if err != nil {
		fmt.Fprintln(os.Stderr, "ENGINE-ERROR load:", err)
		return 2
	}
	// entries per package for the native replay binary
	entries := map[string][]string{}
	for _, p := range l.prog.AllPackages() {
		pp := p.Pkg.Path()
		if !strings.HasPrefix(pp, modPath+"/internal/") {
			continue
		}
		rel := strings.TrimPrefix(pp, modPath+"/internal/")
		for name, m := range p.Members {
			if strings.HasPrefix(name, "H_") {
				if f := p.Func(name); f != nil && f.Signature.Params().Len() == 0 && f.Signature.Results().Len() == 0 {
					_ = m
					entries[rel] = append(entries[rel], name)
				}
			}
		}
	}
	rp, err := newReplayer(ov, entries)
	if err != nil {
		fmt.Fprintln(os.Stderr, "ENGINE-ERROR:", err)
		return 2
	}
	defer rp.close()

	sh := symx.NewShared(l.prog)
	ev := &evidence{PropertyID: id, Tier: *tier, Seed: seed, Level: "model_checking"}
	ev.Coverage.FunctionsEncoded = map[string]int{}
	ev.Coverage.Bounds = map[string]any{}
	ev.Coverage.Witnesses = map[string]int{}
	ev.Coverage.AssertVerdicts = map[string]map[string]int{}
	ev.Coverage.PerObligation = map[string]any{}
	inconclusive := []string{}
	violations := 0
	exit := 0
	replayDir := filepath.Join(verifDir, "replays", id)
	knownPrinted := map[string]bool{}
	expectSeen := map[string]bool{}

	for _, ob := range prop.Obligations {
		if *only != "" && ob.Entry != *only {
			continue
		}
		tc := ob.Quick
		if *tier == "thorough" {
			tc = ob.Thorough
			if tc.Params == nil && tc.MaxPaths == 0 {
				tc = ob.Quick
			}
		}
		f := l.findFunc(modPath+"/internal/"+ob.Pkg, ob.Entry)
		if f == nil {
			fmt.Fprintf(os.Stderr, "ENGINE-ERROR: harness %s.%s not found\n", ob.Pkg, ob.Entry)
			return 2
		}
		cfg := symx.Config{Workers: 16, MaxPaths: tc.MaxPaths, Unwind: tc.Unwind, MaxSteps: tc.MaxSteps, Params: tc.Params,
			SampleModels: 8, SolverTimeoutMs: tc.SolverMs, RecursionLimits: ob.RecursionLimits, Solver: ob.Solver}
		if *tier == "thorough" {
			cfg.SampleModels = 32
			if cfg.SolverTimeoutMs == 0 {
				cfg.SolverTimeoutMs = 120000
			}
		}
		if tc.Timeout > 0 {
			cfg.Deadline = time.Now().Add(tc.Timeout)
		}
		rep := symx.Explore(l.prog, sh, f, cfg)
		ev.Coverage.Obligations++
		obOK := true
		note := func(s string) {
			obOK = false
			inconclusive = append(inconclusive, ob.Entry+": "+s)
		}
		for _, e := range rep.EngineErrors {
			note("engine error: " + firstLine(e))
			if *verbose {
				fmt.Fprintln(os.Stderr, e)
			}
		}
		for _, e := range rep.Truncated {
			note("truncated path (unwinding assertion): " + e)
		}
		if !rep.Exhausted {
			note(fmt.Sprintf("exploration not exhausted within budget (paths=%d)", rep.Paths))
		}
		for aid, vs := range rep.AssertCounts {
			if vs["unknown"] > 0 {
				note(fmt.Sprintf("solver answered unknown on assertion %s (%d times)", aid, vs["unknown"]))
			}
			if ev.Coverage.AssertVerdicts[aid] == nil {
				ev.Coverage.AssertVerdicts[aid] = map[string]int{}
			}
			for k, n := range vs {
				ev.Coverage.AssertVerdicts[aid][k] += n
			}
		}
		for _, w := range ob.Witnesses {
			ev.Coverage.Witnesses[w] += rep.Reached[w]
			if rep.Reached[w] == 0 {
				note("vacuity witness not reached: " + w)
			}
		}
		for w, n := range rep.Reached {
			if _, listed := ev.Coverage.Witnesses[w]; !listed {
				ev.Coverage.Witnesses[w] += n
			}
		}
		// violations → native replay → known / VIOLATION
		for _, v := range rep.Violations {
			rf := &replayFile{Property: id, Harness: ob.Entry, Pkg: ob.Pkg, AssertID: v.ID, Kind: v.Kind, Msg: v.Msg, Pos: v.Pos, Func: v.Func,
				Trace: v.Trace, Events: v.Events, Facts: v.Facts, Stack: v.Stack, Params: tc.Params}
			sig := fmt.Sprintf("%x", sha256.Sum256([]byte(v.ID+"|"+factsString(v.Facts)+"|"+ob.Entry)))[:12]
			os.MkdirAll(replayDir, 0o755)
			rpath := filepath.Join(replayDir, sanitizeFile(v.ID)+"."+sig+".json")
			b, _ := json.MarshalIndent(rf, "", " ")
			os.WriteFile(rpath, b, 0o644)
			repro := false
			why := "replay skipped"
			if !*noReplay {
				for a := 0; a < 6 && !repro; a++ {
					nr, err := rp.run(ob.Pkg, ob.Entry, rpath)
					if err != nil {
						why = err.Error()
						break
					}
					repro, why = reproduced(rf, nr)
				}
			}
			if !repro && !*noReplay {
				note(fmt.Sprintf("counterexample for %s did not reproduce natively (%s) — encoding or stub wrong; replay=%s", v.ID, firstLine(why), rpath))
				continue
			}
			if prop.SelfTest {
				want := false
				for _, e := range ob.Expect {
					if e == v.ID {
						want = true
					}
				}
				if want {
					if !expectSeen[ob.Entry+"/"+v.ID] {
						expectSeen[ob.Entry+"/"+v.ID] = true
						fmt.Fprintf(os.Stderr, "  expected violation %s found, reproduced natively (%s)\n", v.ID, traceString(v.Trace))
					}
					continue
				}
			}
			if kf := known.match(id, v); kf != nil {
				if !knownPrinted[kf.What] {
					knownPrinted[kf.What] = true
					fmt.Printf("KNOWN-FINDING: property=%s %s — %s\n", id, v.ID, kf.What)
				}
				ev.Coverage.KnownFindings = append(ev.Coverage.KnownFindings, v.ID+" "+factsString(v.Facts))
				continue
			}
			violations++
			fmt.Printf("  counterexample %s at %s: %s\n    model: %s\n    facts: %s\n", v.ID, v.Pos, v.Msg, traceString(v.Trace), factsString(v.Facts))
			fmt.Printf("VIOLATION property=%s replay=%s\n", id, rpath)
			exit = 1
		}
		// cross validation of passing paths against the native build
		validated := 0
		if !*noReplay {
			for k, m := range rep.Models {
				rf := &replayFile{Property: id, Harness: ob.Entry, Pkg: ob.Pkg, Kind: "pass", Trace: m.Model, Events: m.Events, Params: tc.Params}
				rpath := filepath.Join(rp.scratch, fmt.Sprintf("pass_%s_%d.json", ob.Entry, k))
				b, _ := json.Marshal(rf)
				os.WriteFile(rpath, b, 0o644)
				okOnce := false
				why := ""
				for a := 0; a < 4 && !okOnce; a++ {
					nr, err := rp.run(ob.Pkg, ob.Entry, rpath)
					if err != nil {
						why = err.Error()
						break
					}
					switch {
					case nr.Crash != "":
						why = "native crash on a path the engine passed: " + nr.Crash
					case len(nr.Diverged) > 0:
						why = "diverged: " + strings.Join(nr.Diverged, ",")
					case nr.Panic != "":
						why = "native panic on a path the engine passed: " + nr.Panic
					case len(nr.Failed) > 0:
						why = "native assertion failure on a path the engine passed: " + strings.Join(nr.Failed, ",")
					case !sameEvents(nr.Events, m.Events):
						why = "event logs differ: " + firstEventDiff(nr.Events, m.Events)
					default:
						okOnce = true
					}
				}
				if okOnce {
					validated++
				} else {
					note("cross-validation mismatch on a passing path: " + firstLine(why))
					os.MkdirAll(replayDir, 0o755)
					os.WriteFile(filepath.Join(replayDir, fmt.Sprintf("xval_mismatch_%s_%d.json", ob.Entry, k)), b, 0o644)
				}
			}
		}
		for _, e := range ob.Expect {
			if !expectSeen[ob.Entry+"/"+e] {
				note("SELFTEST: expected violation " + e + " was not found (or not reproduced): the pipeline is blind to it")
			}
		}
		for _, other := range ob.DiffSolvers {
			cfg2 := cfg
			cfg2.Solver = other
			cfg2.SampleModels = 0
			rep2 := symx.Explore(l.prog, sh, f, cfg2)
			if d := diffVerdicts(rep.AssertCounts, rep2.AssertCounts); d != "" || rep.Paths != rep2.Paths || len(rep2.EngineErrors) > 0 {
				note(fmt.Sprintf("SELFTEST: solver %s disagrees with %s: %s (paths %d vs %d, engine errors %d)", other, firstNonEmpty(ob.Solver, "z3"), d, rep2.Paths, rep.Paths, len(rep2.EngineErrors)))
			} else {
				fmt.Fprintf(os.Stderr, "  solver diff %s vs %s on %s: identical verdicts (%d paths)\n", firstNonEmpty(ob.Solver, "z3"), other, ob.Entry, rep2.Paths)
			}
		}
		if obOK {
			ev.Coverage.Discharged++
		}
		ev.Coverage.States += rep.Paths
		nAsserts := 0
		for _, vs := range rep.AssertCounts {
			for _, n := range vs {
				nAsserts += n
			}
		}
		ev.Coverage.Transitions += rep.Decisions + nAsserts
		ev.Coverage.TracesValidated += validated
		for fn, n := range rep.Funcs {
			if strings.Contains(fn, "mysync") && !strings.Contains(fn, "verifnd") {
				ev.Coverage.FunctionsEncoded[strings.ReplaceAll(fn, modPath+"/internal/", "")] += n
			}
		}
		ev.Coverage.Paths.Explored += rep.Paths
		ev.Coverage.Paths.Truncated += rep.Ends["truncated"]
		ev.Coverage.Paths.Panicking += rep.Ends["panic"]
		ev.Coverage.Paths.AssumePruned += rep.Ends["assume"]
		ev.Coverage.Paths.Infeasible += rep.Ends["infeasible"]
		ev.Coverage.Queries.Unknown += rep.Unknowns
		ev.Coverage.PerObligation[ob.Entry] = map[string]any{"paths": rep.Paths, "ends": rep.Ends, "decisions": rep.Decisions, "steps": rep.Steps,
			"wall_s": round2(rep.WallS), "params": tc.Params, "unwind": cfg.Unwind, "validated_natively": validated, "exhausted": rep.Exhausted}
		for _, s := range rep.Samples {
			if len(ev.Coverage.Samples) < 6 {
				ev.Coverage.Samples = append(ev.Coverage.Samples, map[string]any{"obligation": ob.Entry, "path": "d=[" + s.Decisions + "]", "end": s.End,
					"events": s.Events, "asserts": s.Asserts, "reached": s.Reached})
			}
		}
		for _, m := range rep.Models {
			if len(ev.Coverage.Samples) < 10 {
				ev.Coverage.Samples = append(ev.Coverage.Samples, map[string]any{"obligation": ob.Entry, "path": "d=[" + m.Decisions + "]", "end": m.End,
					"model": traceString(m.Model), "events": m.Events, "asserts": m.Asserts})
			}
		}
		for k, n := range rep.Intrinsics {
			ev.Coverage.intr(k, n)
		}
		for k := range rep.GoSites {
			ev.Coverage.GoSites = appendUniq(ev.Coverage.GoSites, shortPath(k))
		}
		fmt.Fprintf(os.Stderr, "[%s] %s: paths=%d ends=%v decisions=%d violations=%d validated=%d wall=%.1fs\n", id, ob.Entry, rep.Paths, rep.Ends, rep.Decisions, len(rep.Violations), validated, rep.WallS)
	}
	// functions the claim names must have been executed from the repo's SSA
	for _, fn := range prop.Encoded {
		if ev.Coverage.FunctionsEncoded[fn] == 0 && *only == "" {
			inconclusive = append(inconclusive, "function named in the claim was never executed: "+fn)
		}
	}
	ev.Violations = violations
	ev.WallS = round2(time.Since(t0).Seconds())
	ev.Assumptions = prop.Assumptions
	ev.Coverage.Exhaustive = len(inconclusive) == 0
	ev.Coverage.Outside = prop.Outside
	ev.Coverage.Inconclusive = inconclusive
	ev.Coverage.SolverS = map[string]float64{"all_solvers_cpu": round2(float64(smt.TotalNanos) / 1e9)}
	ev.Coverage.Queries.Fallback = int(smt.TotalFallbacks)
	ev.Coverage.Queries.Total = int(smt.TotalQueries)
	ev.Coverage.LoadS = round2(l.loadS)
	ev.Coverage.ReplayBuildS = round2(rp.BuildS)
	ev.Coverage.FunctionsIntercepted = prop.Intercepted
	if iinfo != nil {
		ev.Coverage.Instrumentation = map[string]any{"files_sha256": iinfo.Files, "hooks": iinfo.Hooks, "callsite_rewrites": iinfo.Rewrites}
	}
	ev.Coverage.Explanation = "bounded symbolic execution of the repo's go/ssa (rebuilt from /repo's working tree) with z3 deciding every branch feasibility and assertion; states = explored paths, transitions = branch decisions + assertion evaluations; see DESIGN.md §7 " + id
	ev.Coverage.TrustedBase = []string{"go/packages+go/ssa x/tools v0.50.0", "symx interpreter and intrinsics", "z3 4.8.12", "environment models in /verif/harness"}
	if prop.SelfTest {
		// no evidence file: the self test is not a property
	} else if err := writeEvidence(ev); err != nil {
		fmt.Fprintln(os.Stderr, "ENGINE-ERROR evidence:", err)
		return 2
	}
	if exit == 1 {
		return 1
	}
	if len(inconclusive) > 0 {
		for _, s := range inconclusive {
			fmt.Printf("INCONCLUSIVE property=%s %s\n", id, s)
		}
		return 2
	}
	fmt.Printf("OK property=%s tier=%s obligations=%d/%d paths=%d decisions=%d validated=%d wall=%.1fs\n", id, *tier, ev.Coverage.Discharged, ev.Coverage.Obligations, ev.Coverage.States, ev.Coverage.Transitions, ev.Coverage.TracesValidated, ev.WallS)
	return 0
}

func firstEventDiff(native, engine []string) string {
	for i := 0; i < len(native) || i < len(engine); i++ {
		var a, b string
		if i < len(native) {
			a = native[i]
		} else {
			a = "<none>"
		}
		if i < len(engine) {
			b = engine[i]
		} else {
			b = "<none>"
		}
		if a != b {
			return fmt.Sprintf("event #%d native %q vs engine %q (native %d events, engine %d)", i, a, b, len(native), len(engine))
		}
	}
	return "no difference found"
}

func firstNonEmpty(a, b string) string {
	if a != "" {
		return a
	}
	return b
}

// diffVerdicts compares per-assertion verdict counts of two explorations (sat/unsat/concrete-*).
func diffVerdicts(a, b map[string]map[string]int) string {
	var out []string
	keys := map[string]bool{}
	for k := range a {
		keys[k] = true
	}
	for k := range b {
		keys[k] = true
	}
	for k := range keys {
		va, vb := a[k], b[k]
		vs := map[string]bool{}
		for x := range va {
			vs[x] = true
		}
		for x := range vb {
			vs[x] = true
		}
		for x := range vs {
			if va[x] != vb[x] {
				out = append(out, fmt.Sprintf("%s/%s %d vs %d", k, x, va[x], vb[x]))
			}
		}
	}
	sort.Strings(out)
	return strings.Join(out, "; ")
}

func firstLine(s string) string {
	if i := strings.IndexByte(s, '\n'); i >= 0 {
		s = s[:i]
	}
	if len(s) > 300 {
		s = s[:300]
	}
	return s
}

func sameEvents(a, b []string) bool {
	if len(a) != len(b) {
		return false
	}
	for i := range a {
		if a[i] != b[i] {
			return false
		}
	}
	return true
}

func factsString(f map[string]string) string {
	var ks []string
	for k, v := range f {
		ks = append(ks, k+"="+v)
	}
	sort.Strings(ks)
	return strings.Join(ks, ",")
}

func traceString(t []symx.NDValue) string {
	var parts []string
	for _, v := range t {
		parts = append(parts, fmt.Sprintf("%s=%s", v.Label, v.Value))
		if len(parts) > 80 {
			parts = append(parts, "…")
			break
		}
	}
	return strings.Join(parts, " ")
}

func sanitizeFile(s string) string {
	return strings.Map(func(r rune) rune {
		if r >= 'a' && r <= 'z' || r >= 'A' && r <= 'Z' || r >= '0' && r <= '9' || r == '.' || r == '-' || r == '_' {
			return r
		}
		return '_'
	}, s)
}

func round2(f float64) float64 { return float64(int(f*100+0.5)) / 100 }

func shortPath(p string) string { return strings.TrimPrefix(p, repoDir+"/") }

func appendUniq(l []string, s string) []string {
	for _, x := range l {
		if x == s {
			return l
		}
	}
	return append(l, s)
}

// ---- evidence ----

type evidence struct {
	PropertyID  string   `json:"property_id"`
	Tier        string   `json:"tier"`
	Seed        int      `json:"seed"`
	Level       string   `json:"level"`
	WallS       float64  `json:"wall_s"`
	Violations  int      `json:"violations"`
	Coverage    coverage `json:"coverage"`
	Assumptions []string `json:"assumptions"`
}

type coverage struct {
	States               int                       `json:"states"`
	Transitions          int                       `json:"transitions"`
	TracesValidated      int                       `json:"traces_validated_against_impl"`
	Exhaustive           bool                      `json:"exhaustive"`
	Samples              []any                     `json:"samples"`
	Obligations          int                       `json:"obligations"`
	Discharged           int                       `json:"discharged"`
	FunctionsEncoded     map[string]int            `json:"functions_encoded"`
	FunctionsIntercepted []string                  `json:"functions_intercepted"`
	IntrinsicsUsed       map[string]int            `json:"intrinsics_used"`
	Bounds               map[string]any            `json:"bounds"`
	PerObligation        map[string]any            `json:"per_obligation"`
	Paths                pathCounts                `json:"paths"`
	Queries              queryCounts               `json:"queries"`
	AssertVerdicts       map[string]map[string]int `json:"assert_verdicts"`
	SolverS              map[string]float64        `json:"solver_s"`
	Witnesses            map[string]int            `json:"witnesses"`
	KnownFindings        []string                  `json:"known_findings"`
	Inconclusive         []string                  `json:"inconclusive"`
	Outside              []string                  `json:"outside_the_claim"`
	GoSites              []string                  `json:"goroutines_run_sequentially_at"`
	Instrumentation      map[string]any            `json:"instrumentation,omitempty"`
	LoadS                float64                   `json:"load_s"`
	ReplayBuildS         float64                   `json:"replay_build_s"`
	Explanation          string                    `json:"explanation"`
	TrustedBase          []string                  `json:"trusted_base"`
}

func (c *coverage) intr(k string, n int) {
	if c.IntrinsicsUsed == nil {
		c.IntrinsicsUsed = map[string]int{}
	}
	c.IntrinsicsUsed[k] += n
}

type pathCounts struct {
	Explored     int `json:"explored"`
	Infeasible   int `json:"infeasible"`
	AssumePruned int `json:"assume_pruned"`
	Truncated    int `json:"truncated"`
	Panicking    int `json:"panicking"`
}

type queryCounts struct {
	Total    int `json:"total"`
	Unknown  int `json:"unknown"`
	Fallback int `json:"answered_by_fallback_solver"`
}

func writeEvidence(ev *evidence) error {
	if ev.Coverage.Samples == nil {
		ev.Coverage.Samples = []any{}
	}
	if ev.Coverage.States < 1 {
		ev.Coverage.States = 1
	}
	os.MkdirAll(filepath.Join(verifDir, "evidence"), 0o755)
	b, err := json.MarshalIndent(ev, "", " ")
	if err != nil {
		return err
	}
	return os.WriteFile(filepath.Join(verifDir, "evidence", ev.PropertyID+".json"), b, 0o644)
}

func cmdSelftest(args []string) int { return selftest(args) }
