package main

func selftest() int { return 0 }
