package main

// vcheck selftest: the engine's own regression suite, run by MANIFEST.setup_cmd
// before any property check. The programs are /verif/harness/verifself/self.go;
// they go through the same pipeline as the property harnesses (overlay, go/ssa,
// symbolic execution, solver, native replay and cross-validation).
//
//   lang_*  : concrete programs; event log must equal the natively compiled program's
//   ops_*   : every operator/width on symbolic operands pinned to boundary constants
//   hold_*  : identities that hold for all values (also decided by the other solvers:
//             verdicts must be identical - the two-solver diff of DESIGN section 4)
//   twin_*  : assertions that fail for a rare input: the engine must find the input
//             and it must fail natively (whole-pipeline vacuity guard)

func init() {
	lang := func(e string) obligation { return obligation{Pkg: "verifself", Entry: e} }
	twin := func(e string, expect ...string) obligation {
		return obligation{Pkg: "verifself", Entry: e, Expect: expect}
	}
	reg(&property{
		ID:       "SELF",
		SelfTest: true,
		Obligations: []obligation{
			lang("H_ST_lang_data"), lang("H_ST_lang_control"), lang("H_ST_lang_iface"), lang("H_ST_lang_conc"), lang("H_ST_lang_numeric"),
			{Pkg: "verifself", Entry: "H_ST_ops_int64", Witnesses: []string{"ST.ops.int64"}, DiffSolvers: []string{"z3-new", "cvc5"}},
			{Pkg: "verifself", Entry: "H_ST_ops_float", Solver: "cvc5", Witnesses: []string{"ST.ops.float"}},
			{Pkg: "verifself", Entry: "H_ST_hold_bits", Witnesses: []string{"ST.hold.bits", "ST.hold.bigshift"}, DiffSolvers: []string{"z3-new", "cvc5"}},
			{Pkg: "verifself", Entry: "H_ST_hold_div", Witnesses: []string{"ST.hold.div"}, DiffSolvers: []string{"z3-new", "cvc5"}},
			{Pkg: "verifself", Entry: "H_ST_hold_loop", Witnesses: []string{"ST.hold.loop"}},
			{Pkg: "verifself", Entry: "H_ST_hold_float", Witnesses: []string{"ST.hold.float"}, DiffSolvers: []string{"cvc5"}},
			{Pkg: "verifself", Entry: "H_ST_hold_clock", Witnesses: []string{"ST.hold.clock"}},
			{Pkg: "verifself", Entry: "H_ST_hold_noleak", Witnesses: []string{"ST.hold.noleak"}},
			twin("H_ST_twin_leak", "twin.goroutine-leak"),
			twin("H_ST_twin_arith", "twin.overflow", "twin.mul-sign", "twin.neg-min", "twin.u8-wrap", "twin.midpoint", "twin.unsigned-underflow", "twin.needle"),
			twin("H_ST_twin_float", "twin.float-absorb"),
			twin("H_ST_twin_index", "panic.runtime@verifself.H_ST_twin_index"),
			twin("H_ST_twin_typednil", "panic.runtime@(*verifself.rect).size"),
			twin("H_ST_twin_divzero", "panic.runtime@verifself.H_ST_twin_divzero"),
			twin("H_ST_twin_nilmap", "panic.runtime@verifself.H_ST_twin_nilmap"),
			twin("H_ST_twin_loop", "termination@verifself.spin"),
			twin("H_ST_twin_clock", "twin.clock-exact"),
			twin("H_ST_twin_path", "twin.deep-branch"),
		},
	})
}

func selftest(args []string) int {
	rc := cmdRun(append([]string{"SELF"}, args...))
	if rc != 0 {
		return 2
	}
	return 0
}
