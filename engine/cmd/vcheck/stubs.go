package main

func instrumentRepo() (map[string][]byte, map[string]any, error) { return nil, nil, nil }
func cmdRun(args []string) int                                   { return 2 }
func cmdReplay(args []string) int                                { return 2 }
func cmdSelftest(args []string) int                              { return 2 }
