// Package symx is a symbolic executor for go/ssa, forked from
// golang.org/x/tools/go/ssa/interp (BSD licence, © The Go Authors).
//
// Scalars may be symbolic (see sym.go); everything structural is concrete per
// path. Branches on symbolic conditions are decisions; exploration is by
// re-execution with a decision prefix (see path.go, explore.go).
package symx

import (
	"fmt"
	"go/token"
	"go/types"
	"runtime"
	"runtime/debug"
	"slices"
	"strings"

	"golang.org/x/tools/go/ssa"
)

type continuation int

const (
	kNext continuation = iota
	kReturn
	kJump
)

// State of one interpreter instance (one path execution).
type interpreter struct {
	prog               *ssa.Program
	globals            map[*ssa.Global]*value
	inited             map[*ssa.Package]bool
	runtimeErrorString types.Type
	sizes              types.Sizes
	path               *pathCtx
	shared             *Shared
	funcHits           map[*ssa.Function]int
	tracing            bool
	cur                *frame // innermost running frame (for positions)
	onces              map[*value]bool
	syncMaps           map[*value]*omap
	sched              *scheduler
	thr                *gthread // running interpreted goroutine (nil: the main one)
}

type deferred struct {
	fn    value
	args  []value
	instr *ssa.Defer
	tail  *deferred
}

type frame struct {
	i                *interpreter
	caller           *frame
	fn               *ssa.Function
	block, prevBlock *ssa.BasicBlock
	env              map[ssa.Value]value
	locals           []value
	defers           *deferred
	result           value
	panicking        bool
	panic            any
	phitemps         []value
	symIfs           map[ssa.Instruction]int
	curInstr         ssa.Instruction
	depth            int
	isInit           bool
	loopLimit        int
	blockHits        map[*ssa.BasicBlock]int
}

func (fr *frame) get(key ssa.Value) value {
	switch key := key.(type) {
	case nil:
		return nil
	case *ssa.Function, *ssa.Builtin:
		return key
	case *ssa.Const:
		return constValue(key)
	case *ssa.Global:
		return fr.i.global(key)
	}
	if r, ok := fr.env[key]; ok {
		return r
	}
	panic(engineError{fmt.Sprintf("get: no value for %T: %v", key, key.Name())})
}

func (i *interpreter) global(g *ssa.Global) *value {
	if r, ok := i.globals[g]; ok {
		return r
	}
	pkg := g.Package()
	if i.shared.initAllowed(pkg.Pkg.Path()) {
		if !i.inited[pkg] {
			i.initPackage(pkg)
		}
		if r, ok := i.globals[g]; ok {
			return r
		}
		panic(engineError{fmt.Sprintf("global %s has no storage", g)})
	}
	// Package whose initialiser is not run as a whole: initialise this one
	// global by evaluating the slice of init that stores to it.
	cell := zero(deref(g.Type()))
	i.globals[g] = &cell
	i.lazyInitGlobal(g, &cell)
	return &cell
}

// initPackage runs the initialiser of an init-allowed package (imports are
// initialised lazily in turn).
func (i *interpreter) initPackage(pkg *ssa.Package) {
	if pkg == nil || i.inited[pkg] {
		return
	}
	i.inited[pkg] = true
	if !i.shared.initAllowed(pkg.Pkg.Path()) {
		return
	}
	for _, m := range pkg.Members {
		if g, ok := m.(*ssa.Global); ok {
			if _, ok := i.globals[g]; !ok {
				cell := zero(deref(g.Type()))
				i.globals[g] = &cell
			}
		}
	}
	if f := pkg.Func("init"); f != nil {
		call(i, nil, token.NoPos, f, nil)
	}
}

// lazyInitGlobal evaluates the initialiser expression of g found in its
// package's init function. Supported shapes: constants, calls of functions on
// evaluable arguments, MakeInterface, conversions, &composite literals.
func (i *interpreter) lazyInitGlobal(g *ssa.Global, cell *value) {
	init := g.Package().Func("init")
	if init == nil {
		return
	}
	var st *ssa.Store
	n := 0
	for _, b := range init.Blocks {
		for _, in := range b.Instrs {
			if s, ok := in.(*ssa.Store); ok && s.Addr == ssa.Value(g) {
				st = s
				n++
			}
		}
	}
	if n == 0 {
		// no initialiser: zero value, unless it is mutated by init code we do not run
		if g.Name() == "init$guard" {
			return
		}
		if !i.shared.zeroGlobalOK(g) {
			panic(engineError{fmt.Sprintf("global %s of unmodelled package is initialised by code the engine does not run", g)})
		}
		return
	}
	if n > 1 {
		panic(engineError{fmt.Sprintf("global %s has %d initialising stores", g, n)})
	}
	fr := &frame{i: i, fn: init, env: map[ssa.Value]value{}}
	v := i.evalInit(fr, st.Val, 0)
	store(deref(g.Type()), cell, v)
}

func (i *interpreter) evalInit(fr *frame, v ssa.Value, depth int) value {
	if depth > 12 {
		panic(engineError{"lazy global init: expression too deep"})
	}
	if r, ok := fr.env[v]; ok {
		return r
	}
	var out value
	switch x := v.(type) {
	case *ssa.Const, *ssa.Function:
		return fr.get(x)
	case *ssa.Global:
		return i.global(x)
	case *ssa.Call:
		if x.Call.IsInvoke() {
			panic(engineError{"lazy global init: interface call in " + x.String()})
		}
		fn := i.evalInit(fr, x.Call.Value, depth+1)
		var args []value
		for _, a := range x.Call.Args {
			args = append(args, i.evalInit(fr, a, depth+1))
		}
		out = call(i, nil, token.NoPos, fn, args)
	case *ssa.MakeInterface:
		out = iface{t: x.X.Type(), v: i.evalInit(fr, x.X, depth+1)}
	case *ssa.ChangeType:
		out = i.evalInit(fr, x.X, depth+1)
	case *ssa.Convert:
		out = conv(x.Type(), x.X.Type(), i.evalInit(fr, x.X, depth+1))
	case *ssa.ChangeInterface:
		out = i.evalInit(fr, x.X, depth+1)
	case *ssa.UnOp:
		out = fr.unop(x, i.evalInit(fr, x.X, depth+1))
	case *ssa.Alloc:
		// &T{...}: allocate, then replay the field stores that follow in the same block
		addr := new(value)
		*addr = zero(deref(x.Type()))
		fr.env[x] = addr
		for _, in := range x.Block().Instrs {
			s, ok := in.(*ssa.Store)
			if !ok {
				continue
			}
			if fa, ok := s.Addr.(*ssa.FieldAddr); ok && fa.X == ssa.Value(x) {
				fld := &(*addr).(structure)[fa.Field]
				store(deref(fa.Type()), fld, i.evalInit(fr, s.Val, depth+1))
			} else if ia, ok := s.Addr.(*ssa.IndexAddr); ok && ia.X == ssa.Value(x) {
				arr, isArr := (*addr).(array)
				idx := asInt64(i.evalInit(fr, ia.Index, depth+1))
				if !isArr || idx < 0 || idx >= int64(len(arr)) {
					panic(engineError{"lazy global init: unsupported element store in " + fr.fn.String()})
				}
				store(deref(ia.Type()), &arr[idx], i.evalInit(fr, s.Val, depth+1))
			} else if s.Addr == ssa.Value(x) {
				store(deref(x.Type()), addr, i.evalInit(fr, s.Val, depth+1))
			}
		}
		return addr
	default:
		panic(engineError{fmt.Sprintf("lazy global init: unsupported initialiser %T (%s) in %s", v, v, fr.fn)})
	}
	fr.env[v] = out
	return out
}

func deref(t types.Type) types.Type {
	if p, ok := t.Underlying().(*types.Pointer); ok {
		return p.Elem()
	}
	panic(engineError{fmt.Sprintf("deref: %v is not a pointer", t)})
}

func (fr *frame) pos() string {
	if fr == nil || fr.curInstr == nil {
		return ""
	}
	p := fr.curInstr.Pos()
	if p == token.NoPos {
		// search backwards in the block for a position
		for _, in := range fr.block.Instrs {
			if in.Pos() != token.NoPos {
				p = in.Pos()
			}
			if in == fr.curInstr {
				break
			}
		}
	}
	if p == token.NoPos {
		return fr.fn.String()
	}
	ps := fr.i.prog.Fset.Position(p)
	return fmt.Sprintf("%s:%d", ps.Filename, ps.Line)
}

func (fr *frame) rtPanic(msg string) {
	panic(targetRuntimeError{msg: msg, pos: fr.pos(), fn: fr.fn.String(), stack: stackOf(fr)})
}

func (fr *frame) ptr(v value) *value {
	p, ok := v.(*value)
	if !ok {
		panic(engineError{fmt.Sprintf("expected pointer, got %T at %s", v, fr.pos())})
	}
	if p == nil {
		fr.rtPanic("invalid memory address or nil pointer dereference")
	}
	return p
}

// conc makes an integer value concrete (forking over its feasible values).
func (fr *frame) conc(v value, why string) value {
	if s, ok := v.(sym); ok {
		return fr.i.path.concretize(s, why+"@"+fr.pos())
	}
	return v
}

// decide makes a bool value concrete (forking).
func (fr *frame) decide(v value, kind string) bool {
	switch b := v.(type) {
	case bool:
		return b
	case sym:
		return fr.i.path.decideBool(b.t, kind)
	}
	panic(engineError{fmt.Sprintf("decide: %T", v)})
}

func (fr *frame) runDefer(d *deferred) {
	var ok bool
	defer func() {
		if !ok {
			r := recover()
			if isEngineSignal(r) {
				panic(r)
			}
			fr.panicking = true
			fr.panic = normalizePanic(r)
		}
	}()
	call(fr.i, fr, d.instr.Pos(), d.fn, d.args)
	ok = true
}

func (fr *frame) runDefers() {
	for d := fr.defers; d != nil; d = d.tail {
		fr.runDefer(d)
	}
	fr.defers = nil
	if fr.panicking {
		panic(fr.panic)
	}
}

// normalizePanic classifies a recovered Go panic inside the interpreter.
// Target panics stay; anything else is an interpreter failure = engine error.
func normalizePanic(r any) any {
	switch p := r.(type) {
	case targetPanic, targetRuntimeError, engineError, pathAbort, nonTermination, threadKilled:
		return p
	case runtime.Error:
		return engineError{fmt.Sprintf("interpreter crashed: %v\n%s", p, shortStack())}
	case string:
		return engineError{"interpreter panic: " + p + "\n" + shortStack()}
	default:
		return engineError{fmt.Sprintf("interpreter panic: %T %v\n%s", r, r, shortStack())}
	}
}

func lookupMethod(i *interpreter, typ types.Type, meth *types.Func) *ssa.Function {
	return i.prog.LookupMethod(typ, meth.Pkg(), meth.Name())
}

// visitInitInstr executes one instruction of a package initialiser. An
// instruction the engine cannot execute (regexp.MustCompile, os.Getenv, …)
// yields a poison value; any later use of poison is an engine error.
func visitInitInstr(fr *frame, instr ssa.Instruction) (k continuation) {
	defer func() {
		if r := recover(); r != nil {
			r = normalizePanic(r)
			if _, ok := r.(engineError); !ok {
				panic(r)
			}
			if v, ok := instr.(ssa.Value); ok {
				fr.env[v] = bad{}
			}
			k = kNext
		}
	}()
	switch in := instr.(type) {
	case *ssa.If, *ssa.Jump, *ssa.Return, *ssa.RunDefers:
		return visitInstr(fr, instr)
	case *ssa.Store:
		// storing poison into a global is allowed (the global becomes poison)
		if _, isBad := fr.get(in.Val).(bad); isBad {
			*fr.ptr(fr.get(in.Addr)) = bad{}
			return kNext
		}
	}
	return visitInstr(fr, instr)
}

func visitInstr(fr *frame, instr ssa.Instruction) continuation {
	fr.curInstr = instr
	p := fr.i.path
	p.steps++
	if p.steps > p.maxSteps {
		panic(pathAbort{"truncated", fmt.Sprintf("step limit %d at %s", p.maxSteps, fr.pos())})
	}
	switch instr := instr.(type) {
	case *ssa.DebugRef:
		// no-op

	case *ssa.UnOp:
		fr.env[instr] = fr.unop(instr, fr.get(instr.X))

	case *ssa.BinOp:
		fr.env[instr] = fr.binop(instr.Op, instr.X.Type(), fr.get(instr.X), fr.get(instr.Y))

	case *ssa.Call:
		fn, args := prepareCall(fr, &instr.Call)
		fr.env[instr] = call(fr.i, fr, instr.Pos(), fn, args)

	case *ssa.ChangeInterface:
		fr.env[instr] = fr.get(instr.X)

	case *ssa.ChangeType:
		fr.env[instr] = fr.get(instr.X)

	case *ssa.Convert:
		fr.env[instr] = conv(instr.Type(), instr.X.Type(), fr.get(instr.X))

	case *ssa.SliceToArrayPointer:
		fr.env[instr] = sliceToArrayPointer(instr.Type(), instr.X.Type(), fr.get(instr.X))

	case *ssa.MakeInterface:
		fr.env[instr] = iface{t: instr.X.Type(), v: fr.get(instr.X)}

	case *ssa.Extract:
		fr.env[instr] = fr.get(instr.Tuple).(tuple)[instr.Index]

	case *ssa.Slice:
		fr.env[instr] = fr.slice(fr.get(instr.X), fr.conc(fr.get(instr.Low), "slice.lo"), fr.conc(fr.get(instr.High), "slice.hi"), fr.conc(fr.get(instr.Max), "slice.max"))

	case *ssa.Return:
		switch len(instr.Results) {
		case 0:
		case 1:
			fr.result = fr.get(instr.Results[0])
		default:
			var res []value
			for _, r := range instr.Results {
				res = append(res, fr.get(r))
			}
			fr.result = tuple(res)
		}
		fr.block = nil
		return kReturn

	case *ssa.RunDefers:
		fr.runDefers()

	case *ssa.Panic:
		panic(targetPanic{fr.get(instr.X), fr.pos(), fr.fn.String()})

	case *ssa.Send:
		ch := fr.get(instr.Chan).(*chanq)
		fr.i.chanSend(fr, ch, fr.get(instr.X))

	case *ssa.Store:
		store(deref(instr.Addr.Type()), fr.ptr(fr.get(instr.Addr)), fr.get(instr.Val))

	case *ssa.If:
		cond := fr.get(instr.Cond)
		var b bool
		if s, ok := cond.(sym); ok {
			if fr.symIfs == nil {
				fr.symIfs = map[ssa.Instruction]int{}
			}
			fr.symIfs[instr]++
			if fr.symIfs[instr] > p.unwind {
				panic(pathAbort{"truncated", fmt.Sprintf("unwind bound %d exceeded at %s", p.unwind, fr.pos())})
			}
			b = p.decideBool(s.t, "if@"+fr.pos())
		} else {
			b = cond.(bool)
		}
		succ := 1
		if b {
			succ = 0
		}
		fr.prevBlock, fr.block = fr.block, fr.block.Succs[succ]
		return kJump

	case *ssa.Jump:
		fr.prevBlock, fr.block = fr.block, fr.block.Succs[0]
		return kJump

	case *ssa.Defer:
		fn, args := prepareCall(fr, &instr.Call)
		defers := &fr.defers
		if into := fr.get(instr.DeferStack); into != nil {
			defers = into.(**deferred)
		}
		*defers = &deferred{fn: fn, args: args, instr: instr, tail: *defers}

	case *ssa.Go:
		// Cooperative model (sched.go): the goroutine runs at the spawn point until it finishes or blocks.
		fn, args := prepareCall(fr, &instr.Call)
		fr.i.shared.noteGo(fr.pos())
		fr.i.spawn(fr, fn, args)

	case *ssa.MakeChan:
		fr.env[instr] = &chanq{cap: int(asInt64(fr.conc(fr.get(instr.Size), "makechan")))}

	case *ssa.Alloc:
		var addr *value
		if instr.Heap {
			addr = new(value)
			fr.env[instr] = addr
		} else {
			addr = fr.env[instr].(*value)
		}
		*addr = zero(deref(instr.Type()))

	case *ssa.MakeSlice:
		c := asInt64(fr.conc(fr.get(instr.Cap), "makeslice.cap"))
		l := asInt64(fr.conc(fr.get(instr.Len), "makeslice.len"))
		if l < 0 || c < l || c > 1<<24 {
			fr.rtPanic("makeslice: len out of range")
		}
		slice := make([]value, c)
		tElt := instr.Type().Underlying().(*types.Slice).Elem()
		for i := range slice {
			slice[i] = zero(tElt)
		}
		fr.env[instr] = slice[:l]

	case *ssa.MakeMap:
		fr.env[instr] = newOmap(fr.i, instr.Type().Underlying().(*types.Map))

	case *ssa.Range:
		fr.env[instr] = rangeIter(fr.get(instr.X))

	case *ssa.Next:
		fr.env[instr] = fr.get(instr.Iter).(iter).next()

	case *ssa.FieldAddr:
		fr.env[instr] = &(*fr.ptr(fr.get(instr.X))).(structure)[instr.Field]

	case *ssa.Field:
		fr.env[instr] = fr.get(instr.X).(structure)[instr.Field]

	case *ssa.IndexAddr:
		x := fr.get(instr.X)
		idx := asInt64(fr.conc(fr.get(instr.Index), "index"))
		switch x := x.(type) {
		case []value:
			if idx < 0 || idx >= int64(len(x)) {
				fr.rtPanic(fmt.Sprintf("index out of range [%d] with length %d", idx, len(x)))
			}
			fr.env[instr] = &x[idx]
		case *value: // *array
			a := (*fr.ptr(x)).(array)
			if idx < 0 || idx >= int64(len(a)) {
				fr.rtPanic(fmt.Sprintf("index out of range [%d] with length %d", idx, len(a)))
			}
			fr.env[instr] = &a[idx]
		default:
			panic(engineError{fmt.Sprintf("unexpected x type in IndexAddr: %T", x)})
		}

	case *ssa.Index:
		x := fr.get(instr.X)
		idx := asInt64(fr.conc(fr.get(instr.Index), "index"))
		switch x := x.(type) {
		case array:
			if idx < 0 || idx >= int64(len(x)) {
				fr.rtPanic(fmt.Sprintf("index out of range [%d] with length %d", idx, len(x)))
			}
			fr.env[instr] = x[idx]
		case string:
			if idx < 0 || idx >= int64(len(x)) {
				fr.rtPanic(fmt.Sprintf("index out of range [%d] with length %d", idx, len(x)))
			}
			fr.env[instr] = x[idx]
		default:
			panic(engineError{fmt.Sprintf("unexpected x type in Index: %T", x)})
		}

	case *ssa.Lookup:
		fr.env[instr] = fr.lookup(instr, fr.get(instr.X), fr.get(instr.Index))

	case *ssa.MapUpdate:
		m := fr.get(instr.Map).(*omap)
		if m == nil {
			fr.rtPanic("assignment to entry in nil map")
		}
		m.insert(fr.get(instr.Key), fr.get(instr.Value))

	case *ssa.TypeAssert:
		fr.env[instr] = fr.typeAssert(instr, fr.get(instr.X).(iface))

	case *ssa.MakeClosure:
		var bindings []value
		for _, binding := range instr.Bindings {
			bindings = append(bindings, fr.get(binding))
		}
		fr.env[instr] = &closure{instr.Fn.(*ssa.Function), bindings}

	case *ssa.Phi:
		panic(engineError{"unreachable phi"})

	case *ssa.Select:
		fr.env[instr] = fr.selectInstr(instr)

	default:
		panic(engineError{fmt.Sprintf("unexpected instruction: %T", instr)})
	}
	return kNext
}

// selectInstr: ready cases are those whose channel has a buffered value / is
// closed (recv) or has room (send). Environment channels (tickers, ctx.Done)
// are chanq values flagged env: readiness is a nondeterministic choice.
func (fr *frame) selectInstr(instr *ssa.Select) value {
	chosen := -1
again:
	var ready []int
	var waits []selWait
	for i, st := range instr.States {
		ch, _ := fr.get(st.Chan).(*chanq)
		if ch == nil {
			continue
		}
		waits = append(waits, selWait{ch, st.Dir != types.RecvOnly})
		if st.Dir == types.RecvOnly {
			if len(ch.buf) > 0 || ch.closed || ch.env != nil || fr.i.parkedOn(ch, true) != nil {
				ready = append(ready, i)
			}
		} else if (len(ch.buf) < ch.cap+ch.recvWaiting || fr.i.parkedOn(ch, false) != nil) && !ch.closed {
			ready = append(ready, i)
		}
	}
	var envReady []int
	for _, i := range ready {
		ch := fr.get(instr.States[i].Chan).(*chanq)
		if ch.env != nil && len(ch.buf) == 0 && !ch.closed {
			envReady = append(envReady, i)
		}
	}
	switch {
	case len(ready) == 0:
		if instr.Blocking {
			if fr.i.thr != nil {
				// a goroutine in a select with no ready case parks until a peer operates on one of its channels
				fr.i.parkSelect(fr, waits)
				goto again
			}
			panic(pathAbort{"assume", "select would block forever at " + fr.pos()})
		}
	default:
		n := len(ready)
		extra := 0
		if !instr.Blocking && len(envReady) == len(ready) {
			extra = 1 // all ready cases are environment channels: they may also not be ready
		}
		k := fr.i.path.choose(n+extra, "select@"+fr.pos())
		if k < n {
			chosen = ready[k]
		}
	}
	r := tuple{chosen, false}
	for i, st := range instr.States {
		if st.Dir == types.RecvOnly {
			var v value
			elem := st.Chan.Type().Underlying().(*types.Chan).Elem()
			if i == chosen {
				ch := fr.get(st.Chan).(*chanq)
				v2, ok := ch.recv(fr, elem)
				v = v2
				r[1] = ok
			} else {
				v = zero(elem)
			}
			r = append(r, v)
		} else if i == chosen {
			ch := fr.get(st.Chan).(*chanq)
			fr.i.chanSend(fr, ch, fr.get(st.Send))
		}
	}
	return r
}

func prepareCall(fr *frame, call *ssa.CallCommon) (fn value, args []value) {
	v := fr.get(call.Value)
	if call.Method == nil {
		fn = v
	} else {
		recv := v.(iface)
		if recv.t == nil {
			fr.rtPanic("invalid memory address or nil pointer dereference (method call on nil interface)")
		}
		if f := lookupMethod(fr.i, recv.t, call.Method); f == nil {
			panic(engineError{fmt.Sprintf("method set for dynamic type %v does not contain %s", recv.t, call.Method)})
		} else {
			fn = f
		}
		args = append(args, recv.v)
	}
	for _, arg := range call.Args {
		args = append(args, fr.get(arg))
	}
	return
}

func call(i *interpreter, caller *frame, callpos token.Pos, fn value, args []value) value {
	switch fn := fn.(type) {
	case *ssa.Function:
		if fn == nil {
			if caller != nil {
				caller.rtPanic("call of nil function")
			}
			panic(engineError{"call of nil function"})
		}
		return callSSA(i, caller, callpos, fn, args, nil)
	case *closure:
		return callSSA(i, caller, callpos, fn.Fn, args, fn.Env)
	case *ssa.Builtin:
		return callBuiltin(caller, fn, args)
	}
	panic(engineError{fmt.Sprintf("cannot call %T", fn)})
}

func callSSA(i *interpreter, caller *frame, callpos token.Pos, fn *ssa.Function, args []value, env []value) value {
	if fn.Synthetic == "package initializer" && caller != nil {
		i.initPackage(fn.Pkg)
		return nil
	}
	fr := &frame{i: i, caller: caller, fn: fn}
	if caller != nil {
		fr.depth = caller.depth + 1
	}
	if fr.depth > i.path.maxDepth {
		panic(pathAbort{"truncated", fmt.Sprintf("call depth %d exceeded in %s", i.path.maxDepth, fn)})
	}
	if fn.Parent() == nil {
		name := fn.String()
		if ext := i.shared.intrinsic(fn, name); ext != nil {
			i.shared.noteIntrinsic(name)
			// position info for intrinsics comes from the caller
			fr.curInstr = nil
			if caller != nil {
				fr.block = caller.block
				fr.curInstr = caller.curInstr
				fr.fn = caller.fn
			}
			return ext(fr, args)
		}
		if err := i.shared.vetCall(fn); err != "" {
			panic(engineError{err + " (called from " + callerPos(caller) + ")"})
		}
		if fn.Blocks == nil {
			panic(engineError{"no code for function: " + name + " (called from " + callerPos(caller) + ")"})
		}
	}
	if fn.Pkg != nil && !i.inited[fn.Pkg] {
		i.initPackage(fn.Pkg)
	}
	if fn.TypeParams().Len() > 0 && len(fn.TypeArgs()) == 0 {
		panic(engineError{"uninstantiated generic function " + fn.String()})
	}
	i.funcHits[fn]++
	if lim := i.path.cfg.RecursionLimits; lim != nil {
		name := fn.String()
		if max, ok := lim[name]; ok {
			if i.path.active == nil {
				i.path.active = map[string]int{}
			}
			i.path.active[name]++
			defer func() { i.path.active[name]-- }()
			if i.path.active[name] > max {
				panic(nonTermination{fn: name, depth: i.path.active[name]})
			}
		}
	}

	if ll := i.path.loopLimits; len(ll) > 0 {
		if max, ok := ll[funcShort(fn.String())]; ok {
			fr.loopLimit = max
			fr.blockHits = map[*ssa.BasicBlock]int{}
		}
	}

	fr.isInit = fn.Synthetic == "package initializer"
	fr.env = make(map[ssa.Value]value)
	fr.block = fn.Blocks[0]
	fr.locals = make([]value, len(fn.Locals))
	for i, l := range fn.Locals {
		fr.locals[i] = zero(deref(l.Type()))
		fr.env[l] = &fr.locals[i]
	}
	for i, p := range fn.Params {
		fr.env[p] = args[i]
	}
	for i, fv := range fn.FreeVars {
		fr.env[fv] = env[i]
	}
	for fr.block != nil {
		runFrame(fr)
	}
	return fr.result
}

func callerPos(fr *frame) string {
	if fr == nil {
		return "<entry>"
	}
	return fr.fn.String() + " " + fr.pos()
}

func runFrame(fr *frame) {
	defer func() {
		if fr.block == nil {
			return // normal return
		}
		r := recover()
		r = normalizePanic(r)
		if isEngineSignal(r) {
			panic(r)
		}
		if _, ok := r.(threadKilled); ok {
			panic(r)
		}
		fr.panicking = true
		fr.panic = r
		fr.runDefers()
		fr.block = fr.fn.Recover
	}()

	for {
		if fr.loopLimit > 0 {
			fr.blockHits[fr.block]++
			if n := fr.blockHits[fr.block]; n > fr.loopLimit {
				panic(nonTermination{fn: fr.fn.String(), depth: n, loop: true})
			}
		}
		nonPhis := executePhis(fr)
		for _, instr := range nonPhis {
			if fr.i.tracing {
				if v, ok := instr.(ssa.Value); ok {
					fmt.Printf("\t%s: %s = %s\n", fr.fn.Name(), v.Name(), instr)
				} else {
					fmt.Printf("\t%s: %s\n", fr.fn.Name(), instr)
				}
			}
			if fr.isInit {
				if visitInitInstr(fr, instr) == kReturn {
					return
				}
				continue
			}
			if visitInstr(fr, instr) == kReturn {
				return
			}
		}
	}
}

func executePhis(fr *frame) []ssa.Instruction {
	firstNonPhi := -1
	for i, instr := range fr.block.Instrs {
		if _, ok := instr.(*ssa.Phi); !ok {
			firstNonPhi = i
			break
		}
	}
	nonPhis := fr.block.Instrs[firstNonPhi:]
	if firstNonPhi > 0 {
		phis := fr.block.Instrs[:firstNonPhi]
		predIndex := slices.Index(fr.block.Preds, fr.prevBlock)
		fr.phitemps = fr.phitemps[:0]
		for _, phi := range phis {
			phi := phi.(*ssa.Phi)
			fr.phitemps = append(fr.phitemps, fr.get(phi.Edges[predIndex]))
		}
		for i, phi := range phis {
			fr.env[phi.(*ssa.Phi)] = fr.phitemps[i]
		}
	}
	return nonPhis
}

func doRecover(caller *frame) value {
	if caller != nil && !caller.panicking &&
		caller.caller != nil && caller.caller.panicking {
		caller.caller.panicking = false
		p := caller.caller.panic
		caller.caller.panic = nil
		switch p := p.(type) {
		case targetPanic:
			return p.v
		case targetRuntimeError:
			return iface{caller.i.runtimeErrorString, "runtime error: " + p.msg}
		default:
			panic(engineError{fmt.Sprintf("unexpected panic type %T in target call to recover()", p)})
		}
	}
	return iface{}
}

// stackOf renders the interpreter call stack of fr.
func stackOf(fr *frame) []string {
	var out []string
	for f := fr; f != nil; f = f.caller {
		out = append(out, f.fn.String()+" "+shortPos(f.pos()))
	}
	return out
}

func shortPos(p string) string {
	if i := strings.Index(p, "/internal/"); i >= 0 {
		return p[i+1:]
	}
	return p
}

// shortStack: the few innermost interpreter frames (enough to locate an engine gap).
func shortStack() string {
	lines := strings.Split(string(debug.Stack()), "\n")
	var out []string
	for _, l := range lines {
		if strings.Contains(l, "symx.") && !strings.Contains(l, "normalizePanic") && !strings.Contains(l, "shortStack") {
			out = append(out, strings.TrimSpace(l))
			if len(out) >= 6 {
				break
			}
		}
	}
	return strings.Join(out, " < ")
}
