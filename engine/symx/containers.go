package symx

// Deterministic containers: insertion-ordered maps and queue channels.

import (
	"fmt"
	"go/types"
)

type oentry struct {
	key, val value
	deleted  bool
}

// omap is an insertion-ordered map. Iteration order = insertion order
// (a stated bound: Go's random order is explored only where a harness permutes keys).
type omap struct {
	i       *interpreter
	kt      types.Type
	entries []oentry
	index   map[int][]int // hash -> entry indexes (concrete keys only)
	n       int
	symKeys int
}

func newOmap(i *interpreter, t *types.Map) *omap {
	return &omap{i: i, kt: t.Key(), index: map[int][]int{}}
}

func (m *omap) len() int {
	if m == nil {
		return 0
	}
	return m.n
}

func (m *omap) eqC(a, b value) bool {
	r := equalsV(m.kt, a, b)
	switch b := r.(type) {
	case bool:
		return b
	case sym:
		return m.i.path.decideBool(b.t, "mapkey")
	}
	panic(engineError{"omap.eqC"})
}

func (m *omap) find(k value) int {
	if m == nil {
		return -1
	}
	if hasSym(k) || m.symKeys > 0 {
		for idx := range m.entries {
			if !m.entries[idx].deleted && m.eqC(m.entries[idx].key, k) {
				return idx
			}
		}
		return -1
	}
	h := hash(m.kt, m.kt, k)
	for _, idx := range m.index[h] {
		if !m.entries[idx].deleted && m.eqC(m.entries[idx].key, k) {
			return idx
		}
	}
	return -1
}

func (m *omap) lookup(k value) (value, bool) {
	idx := m.find(k)
	if idx < 0 {
		return nil, false
	}
	return m.entries[idx].val, true
}

func (m *omap) insert(k, v value) {
	idx := m.find(k)
	if idx >= 0 {
		m.entries[idx].val = v
		return
	}
	m.entries = append(m.entries, oentry{key: k, val: v})
	m.n++
	if hasSym(k) {
		m.symKeys++
	} else {
		h := hash(m.kt, m.kt, k)
		m.index[h] = append(m.index[h], len(m.entries)-1)
	}
}

func (m *omap) delete(k value) {
	idx := m.find(k)
	if idx < 0 {
		return
	}
	if hasSym(m.entries[idx].key) {
		m.symKeys--
	}
	m.entries[idx].deleted = true
	m.entries[idx].val = nil
	m.n--
}

type omapIter struct {
	m   *omap
	pos int
}

func (m *omap) iter() iter { return &omapIter{m: m} }

func (it *omapIter) next() tuple {
	if it.m != nil {
		for it.pos < len(it.m.entries) {
			e := it.m.entries[it.pos]
			it.pos++
			if !e.deleted {
				return tuple{true, e.key, e.val}
			}
		}
	}
	return tuple{false, nil, nil}
}

// chanq is a channel modelled as a FIFO queue (sequential execution).
type chanq struct {
	buf    []value
	cap    int
	closed bool
	// recvWaiting: receivers blocked on the channel right now (an unbuffered send may proceed)
	recvWaiting int
	env    *envChan // non-nil: environment channel (ticker, ctx.Done): readiness is nondeterministic
}

type envChan struct {
	kind  string
	fires int // number of times it delivered
	limit int // max deliveries (0 = unlimited within path bounds)
	mk    func(fr *frame) value
}

func (ch *chanq) recv(fr *frame, elem types.Type) (value, bool) {
again:
	if len(ch.buf) > 0 {
		v := ch.buf[0]
		ch.buf = ch.buf[1:]
		fr.i.chanAfterRecv(ch)
		return v, true
	}
	if ch.closed {
		return zero(elem), false
	}
	if ch.env == nil && fr.i.chanRecvBlocked(fr, ch) {
		goto again
	}
	if ch.env != nil {
		ch.env.fires++
		if ch.env.limit > 0 && ch.env.fires > ch.env.limit {
			panic(pathAbort{"truncated", fmt.Sprintf("environment channel %s fired more than %d times", ch.env.kind, ch.env.limit)})
		}
		if ch.env.mk != nil {
			return ch.env.mk(fr), true
		}
		return zero(elem), true
	}
	panic(pathAbort{"assume", "receive on empty channel blocks at " + fr.pos()})
}

// opaqueSlice is a slice of which only the (possibly symbolic) length is observable.
type opaqueSlice struct{ n value }
