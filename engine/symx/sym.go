package symx

// Symbolic scalars: bool, intN/uintN (bit-vectors, wrapping) and float64/32 (SMT FP, RNE).

import (
	"fmt"
	"go/token"
	"go/types"
	"math"

	"verif/engine/smt"
)

// sym is a symbolic scalar. k is the basic kind of the Go value it stands for.
type sym struct {
	k types.BasicKind
	t *smt.Term
}

func (s sym) String() string { return fmt.Sprintf("sym<%s>", types.Typ[s.k]) }

func isSym(v value) bool { _, ok := v.(sym); return ok }

func kindWidth(k types.BasicKind) int {
	switch k {
	case types.Int8, types.Uint8:
		return 8
	case types.Int16, types.Uint16:
		return 16
	case types.Int32, types.Uint32:
		return 32
	case types.Int, types.Int64, types.Uint, types.Uint64, types.Uintptr:
		return 64
	}
	return 0
}

func kindSigned(k types.BasicKind) bool {
	switch k {
	case types.Int, types.Int8, types.Int16, types.Int32, types.Int64:
		return true
	}
	return false
}

func kindIsInt(k types.BasicKind) bool { return kindWidth(k) > 0 }

func kindSort(k types.BasicKind) smt.Sort {
	switch k {
	case types.Bool:
		return smt.Bool
	case types.Float64:
		return smt.F64
	case types.Float32:
		return smt.F32
	}
	if w := kindWidth(k); w > 0 {
		return smt.BV(w)
	}
	panic(engineError{fmt.Sprintf("no SMT sort for kind %v", types.Typ[k])})
}

// kindOf returns the basic kind of a concrete scalar value.
func kindOf(v value) (types.BasicKind, bool) {
	switch v.(type) {
	case bool:
		return types.Bool, true
	case int:
		return types.Int, true
	case int8:
		return types.Int8, true
	case int16:
		return types.Int16, true
	case int32:
		return types.Int32, true
	case int64:
		return types.Int64, true
	case uint:
		return types.Uint, true
	case uint8:
		return types.Uint8, true
	case uint16:
		return types.Uint16, true
	case uint32:
		return types.Uint32, true
	case uint64:
		return types.Uint64, true
	case uintptr:
		return types.Uintptr, true
	case float32:
		return types.Float32, true
	case float64:
		return types.Float64, true
	case sym:
		return v.(sym).k, true
	}
	return 0, false
}

// lift turns a concrete or symbolic scalar into a term.
func lift(v value) *smt.Term {
	switch x := v.(type) {
	case sym:
		return x.t
	case bool:
		return smt.BoolLit(x)
	case int:
		return smt.BVLit(uint64(x), 64)
	case int8:
		return smt.BVLit(uint64(x), 8)
	case int16:
		return smt.BVLit(uint64(x), 16)
	case int32:
		return smt.BVLit(uint64(x), 32)
	case int64:
		return smt.BVLit(uint64(x), 64)
	case uint:
		return smt.BVLit(uint64(x), 64)
	case uint8:
		return smt.BVLit(uint64(x), 8)
	case uint16:
		return smt.BVLit(uint64(x), 16)
	case uint32:
		return smt.BVLit(uint64(x), 32)
	case uint64:
		return smt.BVLit(x, 64)
	case uintptr:
		return smt.BVLit(uint64(x), 64)
	case float64:
		return smt.F64Lit(x)
	case float32:
		return smt.F32Lit(x)
	}
	panic(engineError{fmt.Sprintf("lift: unsupported %T", v)})
}

// mkSym wraps a term; literal terms are lowered back to concrete values.
func mkSym(k types.BasicKind, t *smt.Term) value {
	if t.IsLit {
		return concreteOf(k, t.LitU)
	}
	return sym{k, t}
}

// concreteOf builds the concrete Go value of kind k from raw bits.
func concreteOf(k types.BasicKind, u uint64) value {
	switch k {
	case types.Bool:
		return u != 0
	case types.Int:
		return int(u)
	case types.Int8:
		return int8(u)
	case types.Int16:
		return int16(u)
	case types.Int32:
		return int32(u)
	case types.Int64:
		return int64(u)
	case types.Uint:
		return uint(u)
	case types.Uint8:
		return uint8(u)
	case types.Uint16:
		return uint16(u)
	case types.Uint32:
		return uint32(u)
	case types.Uint64:
		return u
	case types.Uintptr:
		return uintptr(u)
	case types.Float64:
		return math.Float64frombits(u)
	case types.Float32:
		return math.Float32frombits(uint32(u))
	}
	panic(engineError{fmt.Sprintf("concreteOf: kind %v", k)})
}

const rne = "RNE"

func rm(name string) *smt.Term { return &smt.Term{Leaf: name, IsLit: false} }

func symBinop(op token.Token, x, y value) value {
	kx, _ := kindOf(x)
	ky, _ := kindOf(y)
	k := kx
	tx, ty := lift(x), lift(y)
	switch {
	case k == types.Bool:
		switch op {
		case token.EQL:
			return mkSym(types.Bool, smt.Eq(tx, ty))
		case token.NEQ:
			return mkSym(types.Bool, smt.Not(smt.Eq(tx, ty)))
		case token.AND, token.LAND:
			return mkSym(types.Bool, smt.And(tx, ty))
		case token.OR, token.LOR:
			return mkSym(types.Bool, smt.Or(tx, ty))
		}
	case kindIsInt(k):
		w := kindWidth(k)
		s := smt.BV(w)
		sg := kindSigned(k)
		pick := func(a, b string) string {
			if sg {
				return a
			}
			return b
		}
		switch op {
		case token.ADD:
			return mkSym(k, smt.App("bvadd", s, tx, ty))
		case token.SUB:
			return mkSym(k, smt.App("bvsub", s, tx, ty))
		case token.MUL:
			return mkSym(k, smt.App("bvmul", s, tx, ty))
		case token.QUO:
			// division by zero is checked by the caller
			return mkSym(k, smt.App(pick("bvsdiv", "bvudiv"), s, tx, ty))
		case token.REM:
			return mkSym(k, smt.App(pick("bvsrem", "bvurem"), s, tx, ty))
		case token.AND:
			return mkSym(k, smt.App("bvand", s, tx, ty))
		case token.OR:
			return mkSym(k, smt.App("bvor", s, tx, ty))
		case token.XOR:
			return mkSym(k, smt.App("bvxor", s, tx, ty))
		case token.AND_NOT:
			return mkSym(k, smt.App("bvand", s, tx, smt.App("bvnot", s, ty)))
		case token.SHL, token.SHR:
			// bring the shift count to width w (unsigned semantics; negative counts are checked by the caller)
			wy := kindWidth(ky)
			cnt := ty
			if wy < w {
				cnt = smt.App(fmt.Sprintf("(_ zero_extend %d)", w-wy), s, ty)
			} else if wy > w {
				// saturate: if any high bit set the count is >= w anyway
				hi := smt.App(fmt.Sprintf("(_ extract %d %d)", wy-1, w), smt.BV(wy-w), ty)
				lo := smt.App(fmt.Sprintf("(_ extract %d 0)", w-1), s, ty)
				cnt = smt.Ite(smt.Eq(hi, smt.BVLit(0, wy-w)), lo, smt.BVLit(uint64(w), w))
			}
			if op == token.SHL {
				return mkSym(k, smt.App("bvshl", s, tx, cnt))
			}
			return mkSym(k, smt.App(pick("bvashr", "bvlshr"), s, tx, cnt))
		case token.EQL:
			return mkSym(types.Bool, smt.Eq(tx, ty))
		case token.NEQ:
			return mkSym(types.Bool, smt.Not(smt.Eq(tx, ty)))
		case token.LSS:
			return mkSym(types.Bool, smt.App(pick("bvslt", "bvult"), smt.Bool, tx, ty))
		case token.LEQ:
			return mkSym(types.Bool, smt.App(pick("bvsle", "bvule"), smt.Bool, tx, ty))
		case token.GTR:
			return mkSym(types.Bool, smt.App(pick("bvsgt", "bvugt"), smt.Bool, tx, ty))
		case token.GEQ:
			return mkSym(types.Bool, smt.App(pick("bvsge", "bvuge"), smt.Bool, tx, ty))
		}
	case k == types.Float64 || k == types.Float32:
		s := kindSort(k)
		r := rm(rne)
		switch op {
		case token.ADD:
			return mkSym(k, smt.App("fp.add", s, r, tx, ty))
		case token.SUB:
			return mkSym(k, smt.App("fp.sub", s, r, tx, ty))
		case token.MUL:
			return mkSym(k, smt.App("fp.mul", s, r, tx, ty))
		case token.QUO:
			return mkSym(k, smt.App("fp.div", s, r, tx, ty))
		case token.EQL:
			return mkSym(types.Bool, smt.App("fp.eq", smt.Bool, tx, ty))
		case token.NEQ:
			return mkSym(types.Bool, smt.Not(smt.App("fp.eq", smt.Bool, tx, ty)))
		case token.LSS:
			return mkSym(types.Bool, smt.App("fp.lt", smt.Bool, tx, ty))
		case token.LEQ:
			return mkSym(types.Bool, smt.App("fp.leq", smt.Bool, tx, ty))
		case token.GTR:
			return mkSym(types.Bool, smt.App("fp.gt", smt.Bool, tx, ty))
		case token.GEQ:
			return mkSym(types.Bool, smt.App("fp.geq", smt.Bool, tx, ty))
		}
	}
	panic(engineError{fmt.Sprintf("symBinop: unsupported %v on kind %v", op, types.Typ[k])})
}

func symUnop(op token.Token, x sym) value {
	switch {
	case x.k == types.Bool && op == token.NOT:
		return mkSym(types.Bool, smt.Not(x.t))
	case kindIsInt(x.k):
		s := smt.BV(kindWidth(x.k))
		switch op {
		case token.SUB:
			return mkSym(x.k, smt.App("bvneg", s, x.t))
		case token.XOR:
			return mkSym(x.k, smt.App("bvnot", s, x.t))
		}
	case x.k == types.Float64 || x.k == types.Float32:
		if op == token.SUB {
			return mkSym(x.k, smt.App("fp.neg", kindSort(x.k), x.t))
		}
	}
	panic(engineError{fmt.Sprintf("symUnop: unsupported %v on %v", op, x)})
}

// symConv converts symbolic scalar x to basic kind dst.
func symConv(dst types.BasicKind, x sym) value {
	src := x.k
	if src == dst {
		return x
	}
	switch {
	case kindIsInt(src) && kindIsInt(dst):
		ws, wd := kindWidth(src), kindWidth(dst)
		switch {
		case ws == wd:
			return sym{dst, x.t}
		case wd < ws:
			return mkSym(dst, smt.App(fmt.Sprintf("(_ extract %d 0)", wd-1), smt.BV(wd), x.t))
		default:
			ext := "zero_extend"
			if kindSigned(src) {
				ext = "sign_extend"
			}
			return mkSym(dst, smt.App(fmt.Sprintf("(_ %s %d)", ext, wd-ws), smt.BV(wd), x.t))
		}
	case kindIsInt(src) && (dst == types.Float64 || dst == types.Float32):
		op := "(_ to_fp_unsigned 11 53)"
		if kindSigned(src) {
			op = "(_ to_fp 11 53)"
		}
		if dst == types.Float32 {
			op = "(_ to_fp_unsigned 8 24)"
			if kindSigned(src) {
				op = "(_ to_fp 8 24)"
			}
		}
		return mkSym(dst, smt.App(op, kindSort(dst), rm(rne), x.t))
	case (src == types.Float64 || src == types.Float32) && kindIsInt(dst):
		wd := kindWidth(dst)
		op := fmt.Sprintf("(_ fp.to_ubv %d)", wd)
		if kindSigned(dst) {
			op = fmt.Sprintf("(_ fp.to_sbv %d)", wd)
		}
		return mkSym(dst, smt.App(op, smt.BV(wd), rm("RTZ"), x.t))
	case src == types.Float64 && dst == types.Float32:
		return mkSym(dst, smt.App("(_ to_fp 8 24)", smt.F32, rm(rne), x.t))
	case src == types.Float32 && dst == types.Float64:
		return mkSym(dst, smt.App("(_ to_fp 11 53)", smt.F64, rm(rne), x.t))
	}
	panic(engineError{fmt.Sprintf("symConv: %v -> %v", types.Typ[src], types.Typ[dst])})
}

// symBool returns the term of a bool-valued value.
func boolTerm(v value) *smt.Term {
	switch b := v.(type) {
	case bool:
		return smt.BoolLit(b)
	case sym:
		if b.k != types.Bool {
			panic(engineError{"boolTerm: non-bool sym"})
		}
		return b.t
	}
	panic(engineError{fmt.Sprintf("boolTerm: %T", v)})
}

func boolVal(t *smt.Term) value { return mkSym(types.Bool, t) }

// symIte merges two scalar values of identical kind under condition c.
func symIte(c *smt.Term, a, b value) value {
	k, ok := kindOf(a)
	if !ok {
		panic(engineError{fmt.Sprintf("symIte: unsupported %T", a)})
	}
	return mkSym(k, smt.Ite(c, lift(a), lift(b)))
}

// tokstr is a Go string that is the image gs(bits) of an injective encoding of
// a 64-bit payload (DESIGN §3.3: GTID text). gs(0) == "", gs(b) == "g<hex>" for
// b != 0 (the native encoding in verifnd.GTIDString). Supported: equality with
// other strings; everything else fails closed.
type tokstr struct{ t *smt.Term }

// tokEq returns x == y where at least one side is a tokstr.
func tokEq(x, y value) value {
	tx, okx := x.(tokstr)
	ty, oky := y.(tokstr)
	switch {
	case okx && oky:
		return boolVal(smt.Eq(tx.t, ty.t))
	case okx:
		return tokEqConc(tx, y.(string))
	case oky:
		return tokEqConc(ty, x.(string))
	}
	panic(engineError{"tokEq"})
}

func tokEqConc(t tokstr, c string) value {
	if c == "" {
		return boolVal(smt.Eq(t.t, smt.BVLit(0, 64)))
	}
	if len(c) > 1 && c[0] == 'g' {
		var u uint64
		if _, err := fmt.Sscanf(c[1:], "%x", &u); err == nil && u != 0 && fmt.Sprintf("g%x", u) == c {
			return boolVal(smt.Eq(t.t, smt.BVLit(u, 64)))
		}
	}
	return false
}
