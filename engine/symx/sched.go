package symx

import (
	"go/token"

	"golang.org/x/tools/go/ssa"
)

// Cooperative goroutine model. Interpreted goroutines run on real Go goroutines,
// but exactly one of them runs at any time (a baton is handed over explicitly), so
// the schedule is deterministic and identical on every re-execution of a path:
//
//   - `go f()` runs the new goroutine at once, until it finishes or blocks on a
//     channel operation; then the spawner goes on;
//   - a goroutine that blocks on a channel parks; it is woken (and run until it
//     finishes or parks again) by the operation that unblocks it: a send wakes a
//     parked receiver, a receive wakes a parked sender, close wakes everybody;
//   - when the main goroutine would block, a parked peer on that channel is run;
//     if there is none the old behaviour applies (fail closed / prune);
//   - goroutines still parked when the harness returns are observable through
//     verifnd.ParkedGoroutines (leak assertions); at the end of the path they
//     are unwound without running any target code.
//
// One schedule per path: other interleavings are outside the model (stated in
// every claim that relies on it).

type gthread struct {
	id       int
	fn       string
	pos      string // where it parked
	resume   chan struct{}
	yielded  chan struct{}
	done     bool
	panicV   any
	wait     *chanq
	waitSend bool
	sel      []selWait // parked in a select on these channel operations
	cur      *frame
}

type selWait struct {
	ch   *chanq
	send bool
}

type scheduler struct {
	parked []*gthread
	n      int
	killed bool
}

type threadKilled struct{}

func (i *interpreter) spawn(fr *frame, fn value, args []value) {
	if i.sched == nil {
		i.sched = &scheduler{}
	}
	i.sched.n++
	t := &gthread{id: i.sched.n, fn: fnName(fn), resume: make(chan struct{}), yielded: make(chan struct{})}
	pos := token.NoPos
	if fr.curInstr != nil {
		pos = fr.curInstr.Pos()
	}
	go func() {
		<-t.resume
		defer func() {
			if r := recover(); r != nil {
				if _, ok := r.(threadKilled); !ok {
					t.panicV = normalizePanic(r)
				}
			}
			t.done = true
			t.yielded <- struct{}{}
		}()
		if i.sched.killed {
			return
		}
		call(i, nil, pos, fn, args)
	}()
	i.runThread(t)
}

func fnName(fn value) string {
	switch f := fn.(type) {
	case *closure:
		return f.Fn.String()
	case *ssa.Function:
		return f.String()
	}
	return "goroutine"
}

// runThread hands the baton to t and waits until t finishes or parks.
func (i *interpreter) runThread(t *gthread) {
	savedThr, savedCur := i.thr, i.cur
	i.thr = t
	if t.cur != nil {
		i.cur = t.cur
	}
	t.resume <- struct{}{}
	<-t.yielded
	i.thr, i.cur = savedThr, savedCur
	if t.panicV != nil {
		pv := t.panicV
		t.panicV = nil
		panic(pv)
	}
}

// park suspends the current (non-main) goroutine on ch until somebody wakes it.
func (i *interpreter) park(fr *frame, ch *chanq, send bool) {
	t := i.thr
	t.wait, t.waitSend, t.pos, t.cur = ch, send, fr.pos(), i.cur
	i.sched.parked = append(i.sched.parked, t)
	t.yielded <- struct{}{}
	<-t.resume
	if i.sched.killed {
		panic(threadKilled{})
	}
}

// parkedOn returns the first goroutine parked on ch as sender / receiver.
func (i *interpreter) parkedOn(ch *chanq, send bool) *gthread {
	if i.sched == nil {
		return nil
	}
	for _, t := range i.sched.parked {
		if t.wait == ch && t.waitSend == send && t.sel == nil {
			return t
		}
		for _, w := range t.sel {
			if w.ch == ch && w.send == send {
				return t
			}
		}
	}
	return nil
}

// parkSelect suspends the current goroutine in a select none of whose cases is ready;
// it is woken by an operation on one of the channels and then evaluates the select again.
func (i *interpreter) parkSelect(fr *frame, ws []selWait) {
	t := i.thr
	t.sel = ws
	if t.sel == nil {
		t.sel = []selWait{}
	}
	i.park(fr, nil, false)
	t.sel = nil
}

func (i *interpreter) wake(t *gthread) {
	for k, x := range i.sched.parked {
		if x == t {
			i.sched.parked = append(i.sched.parked[:k:k], i.sched.parked[k+1:]...)
			break
		}
	}
	t.wait = nil
	i.runThread(t)
}

// killThreads unwinds every goroutine still parked (end of path).
func (i *interpreter) killThreads() {
	if i.sched == nil {
		return
	}
	i.sched.killed = true
	for len(i.sched.parked) > 0 {
		t := i.sched.parked[0]
		i.sched.parked = i.sched.parked[1:]
		t.panicV = nil
		t.resume <- struct{}{}
		<-t.yielded
	}
}

func (i *interpreter) parkedCount() int {
	if i.sched == nil {
		return 0
	}
	return len(i.sched.parked)
}

// chanSend implements `ch <- v`.
func (i *interpreter) chanSend(fr *frame, ch *chanq, v value) {
	if ch == nil {
		if i.thr != nil {
			i.park(fr, ch, true) // blocks forever
		}
		panic(engineError{"send on nil channel (would block) at " + fr.pos()})
	}
	for {
		if ch.closed {
			fr.rtPanic("send on closed channel")
		}
		if len(ch.buf) < ch.cap+ch.recvWaiting {
			break
		}
		// would block
		if r := i.parkedOn(ch, false); r != nil {
			// a parked receiver: rendez-vous — hand the value over and let it run
			ch.buf = append(ch.buf, v)
			i.wake(r)
			return
		}
		if i.thr == nil {
			// Unbuffered / full and nobody to take it: only environment channels with a consumer model are supported
			panic(engineError{"channel send would block at " + fr.pos()})
		}
		i.park(fr, ch, true)
	}
	ch.buf = append(ch.buf, v)
	if r := i.parkedOn(ch, false); r != nil {
		i.wake(r)
	}
}

// chanRecvBlocked is called by chanq.recv when the channel is empty, open and not an
// environment channel. It returns true when the caller should look again.
func (i *interpreter) chanRecvBlocked(fr *frame, ch *chanq) bool {
	if s := i.parkedOn(ch, true); s != nil {
		ch.recvWaiting++
		i.wake(s)
		ch.recvWaiting--
		return true
	}
	if i.thr != nil {
		ch.recvWaiting++
		i.park(fr, ch, false)
		ch.recvWaiting--
		return true
	}
	return false
}

// chanAfterRecv: a slot became free in a buffered channel — a parked sender may go on.
func (i *interpreter) chanAfterRecv(ch *chanq) {
	if s := i.parkedOn(ch, true); s != nil && len(ch.buf) < ch.cap {
		i.wake(s)
	}
}

// chanClosed wakes everybody parked on ch.
func (i *interpreter) chanClosed(ch *chanq) {
	for {
		t := i.parkedOn(ch, false)
		if t == nil {
			t = i.parkedOn(ch, true)
		}
		if t == nil {
			return
		}
		i.wake(t)
	}
}
