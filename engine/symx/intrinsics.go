package symx

// Library-level cut: intrinsics for verifnd, fmt, errors, time, sync, context,
// zerolog, os. Everything not listed here and not in an interpretable package
// is rejected (fail closed) by Shared.vetCall.

import (
	"fmt"
	"go/token"
	"go/types"
	"math"
	"sort"
	"strconv"
	"strings"
	"time"

	"golang.org/x/tools/go/ssa"

	"verif/engine/smt"
)

type intrinsicFn func(fr *frame, args []value) value

const verifndPath = "github.com/yandex/mysync/internal/verifnd"

// packages whose functions are interpreted from source
var interpretable = []string{
	"github.com/yandex/mysync/",
	"github.com/go-mysql-org/go-mysql/mysql",
	"github.com/google/uuid",
	"github.com/gofrs/uuid",
	"github.com/cenkalti/backoff",
	"strings", "strconv", "sort", "slices", "maps", "unicode", "unicode/utf8", "bytes",
	"math", "math/bits", "errors", "cmp", "iter", "path", "internal/bytealg", "internal/stringslite",
	"internal/itoa", "internal/strconv", "internal/byteorder", "encoding/hex", "container/list", "context",
	"github.com/pingcap/errors", "github.com/go-zookeeper/zk", "github.com/go-sql-driver/mysql", "database/sql", "encoding/binary",
}

// packages whose whole initialiser runs; globals of every other package are
// initialised one by one from the slice of init that stores to them
var initAllowedPkgs = []string{
	"github.com/yandex/mysync/",
}

// zeroGlobalOK: globals without an initialising store that may be read as zero.
func (sh *Shared) zeroGlobalOK(g *ssa.Global) bool {
	return true
}

func hasPrefixAny(s string, list []string) bool {
	for _, p := range list {
		if s == p || strings.HasPrefix(s, p) && (strings.HasSuffix(p, "/") || len(s) > len(p) && (s[len(p)] == '/' || s[len(p)] == '.')) {
			return true
		}
	}
	return false
}

func (sh *Shared) initAllowed(path string) bool { return hasPrefixAny(path, initAllowedPkgs) }
func (sh *Shared) initForbidden(path string) bool {
	return false
}

// vetCall rejects calls into packages that are neither interpretable nor intrinsic.
func (sh *Shared) vetCall(fn *ssa.Function) string {
	// pure integer/float arithmetic on time.Duration
	if n := fn.String(); strings.HasPrefix(n, "(time.Duration).") || n == "time.fmtFrac" || n == "time.fmtInt" || n == "time.lessThanHalf" {
		return ""
	}
	pkg := fn.Pkg
	if pkg == nil {
		if fn.Object() != nil && fn.Object().Pkg() != nil {
			p := fn.Object().Pkg().Path()
			if hasPrefixAny(p, interpretable) {
				return ""
			}
			return "call into unmodelled package: " + fn.String()
		}
		// synthetic wrappers, bound methods, instantiations
		if o := fn.Origin(); o != nil && o.Pkg != nil {
			if hasPrefixAny(o.Pkg.Pkg.Path(), interpretable) {
				return ""
			}
			return "call into unmodelled package: " + fn.String()
		}
		return ""
	}
	if hasPrefixAny(pkg.Pkg.Path(), interpretable) {
		return ""
	}
	return "call into unmodelled package: " + fn.String()
}

func (sh *Shared) intrinsic(fn *ssa.Function, name string) intrinsicFn {
	if f, ok := sh.intrinsics[name]; ok {
		return f
	}
	// package-wide stubs
	var pkgPath string
	if fn.Pkg != nil {
		pkgPath = fn.Pkg.Pkg.Path()
	} else if fn.Object() != nil && fn.Object().Pkg() != nil {
		pkgPath = fn.Object().Pkg().Path()
	}
	if strings.HasPrefix(pkgPath, "github.com/rs/zerolog") {
		return func(fr *frame, args []value) value { return zeroResult(fn) }
	}
	return nil
}

func zeroResult(fn *ssa.Function) value {
	res := fn.Signature.Results()
	switch res.Len() {
	case 0:
		return nil
	case 1:
		return zero(res.At(0).Type())
	}
	return zero(res)
}

func (sh *Shared) buildIntrinsics() {
	m := map[string]intrinsicFn{}
	sh.intrinsics = m
	v := verifndPath + "."

	draw := func(kind string, k types.BasicKind) intrinsicFn {
		return func(fr *frame, args []value) value {
			p := fr.i.path
			label := args[0].(string)
			t := p.fresh(label, kindSort(k))
			p.noteND(label, kind, t, nil)
			return sym{k, t}
		}
	}
	m[v+"Bool"] = draw("bool", types.Bool)
	m[v+"Int64"] = draw("int64", types.Int64)
	m[v+"Uint64"] = draw("uint64", types.Uint64)
	m[v+"Byte"] = draw("byte", types.Uint8)
	m[v+"Int"] = func(fr *frame, args []value) value {
		p := fr.i.path
		label := args[0].(string)
		t := p.fresh(label, smt.BV(64))
		p.noteND(label, "int", t, nil)
		lo, hi := lift(args[1]), lift(args[2])
		p.addPC(smt.And(smt.App("bvsle", smt.Bool, lo, t), smt.App("bvsle", smt.Bool, t, hi)))
		_, cl := args[1].(int)
		_, ch := args[2].(int)
		if cl && ch && args[1].(int) <= args[2].(int) {
			// concrete non-empty range on a fresh variable: satisfiable by construction
		} else if r := p.checkPC(); r == smt.Unsat {
			panic(pathAbort{"assume", "empty Int range " + label})
		}
		return sym{types.Int, t}
	}
	m[v+"Float"] = func(fr *frame, args []value) value {
		p := fr.i.path
		label := args[0].(string)
		t := p.fresh(label, smt.F64)
		p.noteND(label, "float", t, nil)
		p.addPC(smt.Not(smt.App("fp.isNaN", smt.Bool, t)))
		return sym{types.Float64, t}
	}
	m[v+"Choose"] = func(fr *frame, args []value) value {
		p := fr.i.path
		label := args[0].(string)
		n := int(asInt64(fr.conc(args[1], "choose.n")))
		k := p.choose(n, "choose:"+label)
		p.noteND(label, "choose", nil, k)
		return k
	}
	m[v+"OpaqueStrings"] = func(fr *frame, args []value) value {
		return opaqueSlice{n: args[1]}
	}
	m[v+"Param"] = func(fr *frame, args []value) value {
		if v, ok := fr.i.path.cfg.Params[args[0].(string)]; ok {
			return v
		}
		return args[1]
	}
	m[v+"NoopCancel"] = func(fr *frame, args []value) value { return nil }
	// LoopLimit(fn, n): from now on, an activation of fn (short name as in the report's
	// Funcs keys, e.g. "(*app.App).findBestStreamFrom") that enters any one of its basic
	// blocks more than n times is a termination violation "termination@fn" (n <= 0 clears).
	m[v+"LoopLimit"] = func(fr *frame, args []value) value {
		p := fr.i.path
		name := funcShort(args[0].(string))
		n := int(asInt64(fr.conc(args[1], "looplimit.n")))
		if p.loopLimits == nil {
			p.loopLimits = map[string]int{}
		}
		if n <= 0 {
			delete(p.loopLimits, name)
		} else {
			p.loopLimits[name] = n
		}
		return nil
	}
	m[v+"GTIDString"] = func(fr *frame, args []value) value {
		switch b := args[0].(type) {
		case uint64:
			if b == 0 {
				return ""
			}
			return fmt.Sprintf("g%x", b)
		case sym:
			return tokstr{b.t}
		}
		panic(engineError{"GTIDString"})
	}
	m[v+"GTIDBits"] = func(fr *frame, args []value) value {
		switch s := args[0].(type) {
		case tokstr:
			return sym{types.Uint64, s.t}
		case string:
			if s == "" {
				return uint64(0)
			}
			var u uint64
			if _, err := fmt.Sscanf(s, "g%x", &u); err != nil {
				panic(targetPanic{iface{t: types.Typ[types.String], v: "verifnd.GTIDBits: not a GTID token: " + s}, fr.pos(), fr.fn.String()})
			}
			return u
		}
		panic(engineError{"GTIDBits"})
	}
	m[v+"NewIdleTimer"] = func(fr *frame, args []value) value {
		t := fr.namedType("time", "Timer")
		cell := zero(t)
		return &cell
	}
	m[v+"Symbolic"] = func(fr *frame, args []value) value { return true }
	// goroutines of the code under test that are blocked for good right now (sched.go)
	m[v+"ParkedGoroutines"] = func(fr *frame, args []value) value { return fr.i.parkedCount() }
	m[v+"GoroutineBaseline"] = func(fr *frame, args []value) value { return nil }
	m[v+"Assume"] = func(fr *frame, args []value) value {
		p := fr.i.path
		switch c := args[0].(type) {
		case bool:
			if !c {
				panic(pathAbort{"assume", "assumption false"})
			}
		case sym:
			p.addPC(c.t)
			if r := p.checkPC(); r == smt.Unsat {
				panic(pathAbort{"assume", "assumption infeasible"})
			}
		}
		return nil
	}
	m[v+"Constrain"] = func(fr *frame, args []value) value {
		switch c := args[0].(type) {
		case bool:
			if !c {
				panic(pathAbort{"assume", "constraint false"})
			}
		case sym:
			fr.i.path.addPC(c.t)
		}
		return nil
	}
	m[v+"Assert"] = func(fr *frame, args []value) value {
		fr.i.path.assert(fr, args[0], args[1].(string))
		return nil
	}
	m[v+"Reach"] = func(fr *frame, args []value) value {
		p := fr.i.path
		if p.res.Unknowns > 0 {
			if r := p.checkPC(); r != smt.Sat {
				return nil
			}
		}
		p.res.Reached = append(p.res.Reached, args[0].(string))
		return nil
	}
	m[v+"Event"] = func(fr *frame, args []value) value {
		p := fr.i.path
		p.events = append(p.events, args[0].(string))
		return nil
	}
	m[v+"Fact"] = func(fr *frame, args []value) value {
		p := fr.i.path
		p.facts[args[0].(string)] = args[1].(string)
		return nil
	}
	m[v+"And"] = func(fr *frame, args []value) value {
		return boolVal(smt.And(boolTerm(args[0]), boolTerm(args[1])))
	}
	m[v+"Or"] = func(fr *frame, args []value) value {
		return boolVal(smt.Or(boolTerm(args[0]), boolTerm(args[1])))
	}
	m[v+"Not"] = func(fr *frame, args []value) value { return boolVal(smt.Not(boolTerm(args[0]))) }
	m[v+"Implies"] = func(fr *frame, args []value) value {
		return boolVal(smt.Implies(boolTerm(args[0]), boolTerm(args[1])))
	}
	m[v+"Iff"] = func(fr *frame, args []value) value {
		return boolVal(smt.Eq(boolTerm(args[0]), boolTerm(args[1])))
	}
	ite := func(fr *frame, args []value) value {
		c := boolTerm(args[0])
		if c.IsTrue() {
			return args[1]
		}
		if c.IsFalse() {
			return args[2]
		}
		return symIte(c, args[1], args[2])
	}
	m[v+"IteInt"] = ite
	m[v+"IteInt64"] = ite
	m[v+"IteUint64"] = ite
	m[v+"IteFloat"] = ite
	m[v+"IteBool"] = ite
	m[v+"IsConcrete"] = func(fr *frame, args []value) value {
		return !hasSym(args[0].(iface).v)
	}
	// ---- symbolic clock: time.Time is {wall:1, ext:unix-ns, loc:nil}; zero Time is all-zero ----
	m[v+"TimeAt"] = func(fr *frame, args []value) value { return mkTime(args[0]) }
	m[v+"UnixNano"] = func(fr *frame, args []value) value { return timeNS(args[0]) }
	m["(time.Time).IsZero"] = func(fr *frame, args []value) value { return timeIsZero(args[0]) }
	m["(time.Time).Sub"] = func(fr *frame, args []value) value { return timeSub(args[0], args[1]) }
	m["(time.Time).Add"] = func(fr *frame, args []value) value {
		t := args[0].(structure)
		if isZeroTimeConcrete(t) {
			panic(engineError{"Add on zero time.Time not modelled at " + fr.pos()})
		}
		return mkTime(symOrConcBin(token.ADD, t[1], args[1]))
	}
	m["(time.Time).Before"] = func(fr *frame, args []value) value { return timeCmp(token.LSS, args[0], args[1]) }
	m["(time.Time).After"] = func(fr *frame, args []value) value { return timeCmp(token.GTR, args[0], args[1]) }
	m["(time.Time).Equal"] = func(fr *frame, args []value) value { return timeCmp(token.EQL, args[0], args[1]) }
	m["(time.Time).Compare"] = func(fr *frame, args []value) value {
		lt := boolTerm(timeCmp(token.LSS, args[0], args[1]))
		gt := boolTerm(timeCmp(token.GTR, args[0], args[1]))
		return mkSym(types.Int, smt.Ite(lt, smt.BVLit(^uint64(0), 64), smt.Ite(gt, smt.BVLit(1, 64), smt.BVLit(0, 64))))
	}
	m["(time.Time).UnixNano"] = func(fr *frame, args []value) value { return timeNS(args[0]) }
	m["(time.Time).String"] = func(fr *frame, args []value) value { return "<time>" }
	m["(time.Time).Format"] = func(fr *frame, args []value) value { return "<time>" }
	m["(time.Duration).String"] = func(fr *frame, args []value) value {
		if d, ok := args[0].(int64); ok {
			return time.Duration(d).String()
		}
		return "<duration>"
	}
	// tickers are created by verifnd.NewTicker (call-site rewrite): plain channels fed by the harness
	m["(*time.Ticker).Stop"] = func(fr *frame, args []value) value { return nil }
	m["(time.Duration).Seconds"] = func(fr *frame, args []value) value {
		// exact for concrete durations; a symbolic duration must be k*time.Second with
		// |k| <= 2^33 provable from the path condition: then Seconds() == float64(k) exactly
		// (sec = k, nsec = 0 in the real implementation). Anything else fails closed.
		if d, ok := args[0].(int64); ok {
			return float64(d) / 1e9
		}
		p := fr.i.path
		d := args[0].(sym)
		var k *smt.Term
		if d.t.Op == "bvmul" && len(d.t.Args) == 2 {
			for ai, a := range d.t.Args {
				if a.IsLit && a.LitU == 1_000_000_000 {
					k = d.t.Args[1-ai]
				}
			}
		}
		if k == nil {
			panic(engineError{"(time.Duration).Seconds on a symbolic duration that is not k*time.Second at " + fr.pos()})
		}
		lim := uint64(1) << 33
		inRange := smt.And(smt.App("bvsle", smt.Bool, smt.BVLit(-lim, 64), k), smt.App("bvsle", smt.Bool, k, smt.BVLit(lim, 64)))
		if p.check(smt.Not(inRange)) != smt.Unsat {
			panic(engineError{"(time.Duration).Seconds: whole-second count not provably within 2^33 at " + fr.pos()})
		}
		return mkSym(types.Float64, smt.App("(_ to_fp 11 53)", smt.F64, rm(rne), k))
	}
	// ---- fmt / errors ----
	m["fmt.Errorf"] = func(fr *frame, args []value) value { return fr.fmtErrorf(args) }
	m["fmt.Sprintf"] = func(fr *frame, args []value) value {
		s, _ := fr.format(args[0].(string), args[1].([]value), false)
		return s
	}
	m["fmt.Sprint"] = func(fr *frame, args []value) value {
		var sb strings.Builder
		for _, a := range args[0].([]value) {
			sb.WriteString(fr.render(a, 'v', false))
		}
		return sb.String()
	}
	m["fmt.Println"] = func(fr *frame, args []value) value { return tuple{0, iface{}} }
	m["fmt.Printf"] = func(fr *frame, args []value) value { return tuple{0, iface{}} }
	m["fmt.Appendf"] = func(fr *frame, args []value) value {
		s, _ := fr.format(args[1].(string), args[2].([]value), false)
		b := args[0].([]value)
		for i := 0; i < len(s); i++ {
			b = append(b, s[i])
		}
		return b
	}
	m["(*fmt.wrapError).Error"] = func(fr *frame, args []value) value { return (*fr.ptr(args[0])).(structure)[0] }
	m["(*fmt.wrapError).Unwrap"] = func(fr *frame, args []value) value { return (*fr.ptr(args[0])).(structure)[1] }
	m["(*fmt.wrapErrors).Error"] = func(fr *frame, args []value) value { return (*fr.ptr(args[0])).(structure)[0] }
	m["(*fmt.wrapErrors).Unwrap"] = func(fr *frame, args []value) value { return (*fr.ptr(args[0])).(structure)[1] }
	m["errors.Is"] = func(fr *frame, args []value) value { return fr.errorsIs(args[0].(iface), args[1].(iface)) }
	m["errors.As"] = func(fr *frame, args []value) value { return fr.errorsAs(args[0].(iface), args[1].(iface)) }
	m["errors.Unwrap"] = func(fr *frame, args []value) value {
		e := args[0].(iface)
		if e.t == nil {
			return iface{}
		}
		if u := fr.callMethod(e, "Unwrap"); u != nil {
			if ui, ok := u.(iface); ok {
				return ui
			}
		}
		return iface{}
	}
	// ---- sync ----
	nop := func(fr *frame, args []value) value { return nil }
	for _, n := range []string{"(*sync.Mutex).Lock", "(*sync.Mutex).Unlock", "(*sync.RWMutex).Lock", "(*sync.RWMutex).Unlock",
		"(*sync.RWMutex).RLock", "(*sync.RWMutex).RUnlock", "(*sync.WaitGroup).Add", "(*sync.WaitGroup).Done", "(*sync.WaitGroup).Wait"} {
		m[n] = nop
	}
	// sync.Map with sequential semantics (side table keyed by the Map's address)
	smap := func(fr *frame, recv value) *omap {
		p := fr.ptr(recv)
		mp := fr.i.syncMaps[p]
		if mp == nil {
			any := types.NewInterfaceType(nil, nil)
			mp = newOmap(fr.i, types.NewMap(any, any))
			fr.i.syncMaps[p] = mp
		}
		return mp
	}
	m["(*sync.Map).Load"] = func(fr *frame, args []value) value {
		v, ok := smap(fr, args[0]).lookup(args[1])
		if !ok {
			return tuple{iface{}, false}
		}
		return tuple{v, true}
	}
	m["(*sync.Map).Store"] = func(fr *frame, args []value) value {
		smap(fr, args[0]).insert(args[1], args[2])
		return nil
	}
	m["(*sync.Map).Delete"] = func(fr *frame, args []value) value {
		smap(fr, args[0]).delete(args[1])
		return nil
	}
	m["(*sync.Map).Clear"] = func(fr *frame, args []value) value {
		delete(fr.i.syncMaps, fr.ptr(args[0]))
		return nil
	}
	m["(*sync.Once).Do"] = func(fr *frame, args []value) value {
		// the "done" state lives in the Once value itself (field done.v), so that copying or
		// re-assigning the struct (`once = sync.Once{}` to allow another attempt) behaves as in Go
		p := fr.ptr(args[0])
		if st, ok := (*p).(structure); ok {
			// sync.Once{_ noCopy; done atomic.Uint32; m Mutex}: the first field holding a uint32 is `done`
			for _, f := range st {
				d, ok := f.(structure)
				if !ok || len(d) == 0 {
					continue
				}
				last := len(d) - 1
				v, ok := d[last].(uint32)
				if !ok {
					continue
				}
				if v != 0 {
					return nil
				}
				d[last] = uint32(1)
				call(fr.i, fr, token.NoPos, args[1], nil)
				return nil
			}
		}
		if fr.i.onces[p] {
			return nil
		}
		fr.i.onces[p] = true
		call(fr.i, fr, token.NoPos, args[1], nil)
		return nil
	}
	// ---- math ----
	m["math.Floor"] = func(fr *frame, args []value) value {
		if f, ok := args[0].(float64); ok {
			return math.Floor(f)
		}
		return mkSym(types.Float64, smt.App("fp.roundToIntegral", smt.F64, rm("RTN"), args[0].(sym).t))
	}
	m["math.NaN"] = func(fr *frame, args []value) value { return math.NaN() }
	m["math.IsNaN"] = func(fr *frame, args []value) value {
		if f, ok := args[0].(float64); ok {
			return math.IsNaN(f)
		}
		return boolVal(smt.App("fp.isNaN", smt.Bool, args[0].(sym).t))
	}
	m["math.Inf"] = func(fr *frame, args []value) value { return math.Inf(int(asInt64(args[0]))) }
	m["math.Float64bits"] = func(fr *frame, args []value) value {
		if f, ok := args[0].(float64); ok {
			return math.Float64bits(f)
		}
		panic(engineError{"math.Float64bits on symbolic float"})
	}
	m["math.Float64frombits"] = func(fr *frame, args []value) value {
		if u, ok := args[0].(uint64); ok {
			return math.Float64frombits(u)
		}
		panic(engineError{"math.Float64frombits on symbolic"})
	}
	m["math.Abs"] = func(fr *frame, args []value) value {
		if f, ok := args[0].(float64); ok {
			return math.Abs(f)
		}
		return mkSym(types.Float64, smt.App("fp.abs", smt.F64, args[0].(sym).t))
	}
	// ---- strings with assembly back ends ----
	m["strings.Index"] = func(fr *frame, args []value) value { return strings.Index(cstr(fr, args[0]), cstr(fr, args[1])) }
	m["strings.IndexByte"] = func(fr *frame, args []value) value {
		return strings.IndexByte(cstr(fr, args[0]), args[1].(byte))
	}
	m["strings.Count"] = func(fr *frame, args []value) value { return strings.Count(cstr(fr, args[0]), cstr(fr, args[1])) }
	m["strings.EqualFold"] = func(fr *frame, args []value) value {
		return strings.EqualFold(cstr(fr, args[0]), cstr(fr, args[1]))
	}
	m["strings.ToLower"] = func(fr *frame, args []value) value { return strings.ToLower(cstr(fr, args[0])) }
	m["strings.ToUpper"] = func(fr *frame, args []value) value { return strings.ToUpper(cstr(fr, args[0])) }
	m["strings.Contains"] = func(fr *frame, args []value) value {
		return strings.Contains(cstr(fr, args[0]), cstr(fr, args[1]))
	}
	m["strings.HasPrefix"] = func(fr *frame, args []value) value {
		return strings.HasPrefix(cstr(fr, args[0]), cstr(fr, args[1]))
	}
	m["strings.HasSuffix"] = func(fr *frame, args []value) value {
		return strings.HasSuffix(cstr(fr, args[0]), cstr(fr, args[1]))
	}
	m["strings.Split"] = func(fr *frame, args []value) value {
		return strSlice(strings.Split(cstr(fr, args[0]), cstr(fr, args[1])))
	}
	m["strings.Join"] = func(fr *frame, args []value) value {
		var parts []string
		for _, e := range args[0].([]value) {
			parts = append(parts, cstr(fr, e))
		}
		return strings.Join(parts, cstr(fr, args[1]))
	}
	m["strings.ReplaceAll"] = func(fr *frame, args []value) value {
		return strings.ReplaceAll(cstr(fr, args[0]), cstr(fr, args[1]), cstr(fr, args[2]))
	}
	m["strings.TrimSpace"] = func(fr *frame, args []value) value { return strings.TrimSpace(cstr(fr, args[0])) }
	m["strings.TrimPrefix"] = func(fr *frame, args []value) value {
		return strings.TrimPrefix(cstr(fr, args[0]), cstr(fr, args[1]))
	}
	m["strings.TrimSuffix"] = func(fr *frame, args []value) value {
		return strings.TrimSuffix(cstr(fr, args[0]), cstr(fr, args[1]))
	}
	m["strings.Trim"] = func(fr *frame, args []value) value { return strings.Trim(cstr(fr, args[0]), cstr(fr, args[1])) }
	m["strings.TrimRight"] = func(fr *frame, args []value) value {
		return strings.TrimRight(cstr(fr, args[0]), cstr(fr, args[1]))
	}
	m["strings.TrimLeft"] = func(fr *frame, args []value) value {
		return strings.TrimLeft(cstr(fr, args[0]), cstr(fr, args[1]))
	}
	m["strconv.Itoa"] = func(fr *frame, args []value) value { return strconv.Itoa(int(asInt64(fr.conc(args[0], "itoa")))) }
	m["strconv.FormatFloat"] = func(fr *frame, args []value) value {
		if f, ok := args[0].(float64); ok {
			return strconv.FormatFloat(f, args[1].(byte), int(asInt64(args[2])), int(asInt64(args[3])))
		}
		return "<float>"
	}
	m["sort.Strings"] = func(fr *frame, args []value) value {
		x := args[0].([]value)
		sort.SliceStable(x, func(i, j int) bool { return cstr(fr, x[i]) < cstr(fr, x[j]) })
		return nil
	}
	m["bytes.Equal"] = func(fr *frame, args []value) value {
		a, b := args[0].([]value), args[1].([]value)
		if len(a) != len(b) {
			return false
		}
		var r value = true
		for i := range a {
			r = andV(r, equalsV(types.Typ[types.Uint8], a[i], b[i]))
		}
		return r
	}
	// ---- go-mysql GTID text (outside every claim): "" iff no keys, else an opaque token ----
	m["(*github.com/go-mysql-org/go-mysql/mysql.MysqlGTIDSet).String"] = func(fr *frame, args []value) value {
		mp := (*fr.ptr(args[0])).(*omap)
		if mp.len() == 0 {
			return ""
		}
		return "<gtidset>"
	}
	// ---- strings.Builder (uses unsafe): content kept in the buf field as bytes ----
	sbBuf := func(fr *frame, recv value) *value {
		return &(*fr.ptr(recv)).(structure)[1]
	}
	sbAppend := func(fr *frame, recv value, s string) {
		b := sbBuf(fr, recv)
		cur, _ := (*b).([]value)
		for i := 0; i < len(s); i++ {
			cur = append(cur, s[i])
		}
		*b = cur
	}
	m["(*strings.Builder).WriteString"] = func(fr *frame, args []value) value {
		s := cstr(fr, args[1])
		sbAppend(fr, args[0], s)
		return tuple{len(s), iface{}}
	}
	m["(*strings.Builder).WriteByte"] = func(fr *frame, args []value) value {
		sbAppend(fr, args[0], string([]byte{args[1].(byte)}))
		return iface{}
	}
	m["(*strings.Builder).WriteRune"] = func(fr *frame, args []value) value {
		s := string(args[1].(rune))
		sbAppend(fr, args[0], s)
		return tuple{len(s), iface{}}
	}
	m["(*strings.Builder).Write"] = func(fr *frame, args []value) value {
		p := args[1].([]value)
		bs := make([]byte, len(p))
		for i := range p {
			bs[i] = p[i].(byte)
		}
		sbAppend(fr, args[0], string(bs))
		return tuple{len(p), iface{}}
	}
	m["(*strings.Builder).String"] = func(fr *frame, args []value) value {
		cur, _ := (*sbBuf(fr, args[0])).([]value)
		bs := make([]byte, len(cur))
		for i := range cur {
			bs[i] = cur[i].(byte)
		}
		return string(bs)
	}
	m["(*strings.Builder).Len"] = func(fr *frame, args []value) value {
		cur, _ := (*sbBuf(fr, args[0])).([]value)
		return len(cur)
	}
	m["(*strings.Builder).Reset"] = func(fr *frame, args []value) value {
		*sbBuf(fr, args[0]) = []value(nil)
		return nil
	}
	m["(*strings.Builder).Grow"] = func(fr *frame, args []value) value { return nil }
	// ---- context ----
	noopCancel := func(fr *frame) value {
		pkg := fr.i.prog.ImportedPackage(verifndPath)
		if pkg == nil || pkg.Func("NoopCancel") == nil {
			panic(engineError{"verifnd.NoopCancel missing"})
		}
		return pkg.Func("NoopCancel")
	}
	m["context.WithTimeout"] = func(fr *frame, args []value) value { return tuple{args[0], noopCancel(fr)} }
	m["context.WithCancel"] = func(fr *frame, args []value) value { return tuple{args[0], noopCancel(fr)} }
	m["context.WithDeadline"] = func(fr *frame, args []value) value { return tuple{args[0], noopCancel(fr)} }
	// ---- os ----
	m["os.Getpid"] = func(fr *frame, args []value) value { return 4242 }
	m["os.IsNotExist"] = func(fr *frame, args []value) value {
		e := args[0].(iface)
		return e.t != nil && strings.Contains(e.t.String(), "NotExist")
	}
}

func cstr(fr *frame, v value) string {
	s, ok := v.(string)
	if !ok {
		panic(engineError{fmt.Sprintf("symbolic or non-string value %T where concrete string needed at %s", v, fr.pos())})
	}
	return s
}

func strSlice(ss []string) value {
	out := make([]value, len(ss))
	for i, s := range ss {
		out[i] = s
	}
	return out
}

func symOrConcBin(op token.Token, x, y value) value {
	if isSym(x) || isSym(y) {
		return symBinop(op, x, y)
	}
	return binop(op, types.Typ[types.Int64], x, y)
}

// ---- time model ----

func mkTime(ns value) value {
	return structure{uint64(1), ns, (*value)(nil)}
}

func isZeroTimeConcrete(t structure) bool {
	w, ok := t[0].(uint64)
	return ok && w == 0
}

func timeIsZero(tv value) value {
	t := tv.(structure)
	w, ok := t[0].(uint64)
	if !ok {
		panic(engineError{"time.Time with symbolic zero-flag"})
	}
	if w > 1 {
		panic(engineError{"real time.Time value reached the clock model (unrewritten time.Now?)"})
	}
	return w == 0
}

func timeNS(tv value) value {
	t := tv.(structure)
	if timeIsZero(tv).(bool) {
		return int64(-6795364578871345152) // time.Time{}.UnixNano() (wrapped), as the real build
	}
	return t[1]
}

func timeSub(a, b value) value {
	za, zb := timeIsZero(a).(bool), timeIsZero(b).(bool)
	switch {
	case za && zb:
		return int64(0)
	case zb:
		return int64(math.MaxInt64) // ~2000 years saturates
	case za:
		return int64(math.MinInt64)
	}
	return symOrConcBin(token.SUB, a.(structure)[1], b.(structure)[1])
}

func timeCmp(op token.Token, a, b value) value {
	za, zb := timeIsZero(a).(bool), timeIsZero(b).(bool)
	if za || zb {
		// zero is before every non-zero instant
		x, y := int64(1), int64(1)
		if za {
			x = 0
		}
		if zb {
			y = 0
		}
		return binop(op, types.Typ[types.Int64], x, y)
	}
	return symOrConcBin(op, a.(structure)[1], b.(structure)[1])
}

// ---- formatting ----

func (fr *frame) callMethod(recv iface, name string) value {
	if recv.t == nil {
		return nil
	}
	ms := fr.i.prog.MethodSets.MethodSet(recv.t)
	for k := 0; k < ms.Len(); k++ {
		sel := ms.At(k)
		if sel.Obj().Name() == name {
			f := fr.i.prog.MethodValue(sel)
			if f == nil {
				return nil
			}
			if f.Signature.Params().Len() != 0 {
				return nil
			}
			return call(fr.i, fr, token.NoPos, f, []value{recv.v})
		}
	}
	return nil
}

func (fr *frame) hasMethod(t types.Type, name string) *ssa.Function {
	if t == nil {
		return nil
	}
	ms := fr.i.prog.MethodSets.MethodSet(t)
	for k := 0; k < ms.Len(); k++ {
		sel := ms.At(k)
		if sel.Obj().Name() == name {
			return fr.i.prog.MethodValue(sel)
		}
	}
	return nil
}

// render formats one argument for verb.
func (fr *frame) render(a value, verb byte, strict bool) string {
	return fr.renderD(a, verb, "%"+string(verb), strict)
}

// renderD formats one argument with the full directive (flags, width, precision).
func (fr *frame) renderD(a value, verb byte, directive string, strict bool) string {
	it, ok := a.(iface)
	if !ok {
		return toString(a)
	}
	if it.t == nil {
		return "<nil>"
	}
	if verb != 'T' && verb != 'p' {
		if f := fr.hasMethod(it.t, "Error"); f != nil && f.Signature.Params().Len() == 0 {
			if p, isPtr := it.v.(*value); isPtr && p == nil {
				return "<nil>"
			}
			if s, ok := call(fr.i, fr, token.NoPos, f, []value{it.v}).(string); ok {
				return s
			}
		}
		if f := fr.hasMethod(it.t, "String"); f != nil && f.Signature.Params().Len() == 0 && f.Signature.Results().Len() == 1 {
			if p, isPtr := it.v.(*value); isPtr && p == nil {
				return "<nil>"
			}
			if fr.i.shared.vetCall(f) == "" || fr.i.shared.intrinsic(f, f.String()) != nil {
				if s, ok := call(fr.i, fr, token.NoPos, f, []value{it.v}).(string); ok {
					return s
				}
			}
		}
	}
	switch x := it.v.(type) {
	case string:
		if verb == 'q' {
			return strconv.Quote(x)
		}
		if directive != "%"+string(verb) && (verb == 's' || verb == 'v') {
			return fmt.Sprintf(strings.Replace(directive, "v", "s", 1), x)
		}
		return x
	case sym:
		if strict {
			panic(engineError{"formatting a symbolic value into a string that may be inspected at " + fr.pos()})
		}
		return "<sym>"
	case tokstr:
		if strict {
			panic(engineError{"formatting an opaque token string into a string that may be inspected at " + fr.pos()})
		}
		return "<token>"
	case bool, int, int8, int16, int32, int64, uint, uint8, uint16, uint32, uint64, float32, float64:
		if verb == 'T' {
			return types.TypeString(it.t, func(p *types.Package) string { return p.Name() })
		}
		return fmt.Sprintf(directive, x)
	}
	if verb == 'T' {
		return types.TypeString(it.t, func(p *types.Package) string { return p.Name() })
	}
	if hasSym(it.v) && strict {
		panic(engineError{"formatting a value with symbolic parts at " + fr.pos()})
	}
	return toString(it.v)
}

// format implements the subset of fmt verbs used by the code under test.
// Returns the text and the %w operands.
func (fr *frame) format(f string, args []value, lenient bool) (string, []iface) {
	var sb strings.Builder
	var wrapped []iface
	ai := 0
	for i := 0; i < len(f); i++ {
		c := f[i]
		if c != '%' {
			sb.WriteByte(c)
			continue
		}
		dstart := i
		i++
		if i >= len(f) {
			sb.WriteString("%!(NOVERB)")
			break
		}
		// flags / width / precision
		for i < len(f) && strings.IndexByte("+-# 0123456789.", f[i]) >= 0 {
			i++
		}
		if i >= len(f) {
			break
		}
		verb := f[i]
		if verb == '%' {
			sb.WriteByte('%')
			continue
		}
		if ai >= len(args) {
			sb.WriteString("%!" + string(verb) + "(MISSING)")
			continue
		}
		a := args[ai]
		ai++
		directive := f[dstart : i+1]
		if verb == 'w' {
			if it, ok := a.(iface); ok {
				wrapped = append(wrapped, it)
			}
			verb = 'v'
			directive = "%v"
		}
		if strings.Contains(directive, "*") {
			panic(engineError{"fmt: '*' width not modelled at " + fr.pos()})
		}
		sb.WriteString(fr.renderD(a, verb, directive, !lenient))
	}
	return sb.String(), wrapped
}

func (fr *frame) namedType(pkg, name string) types.Type {
	p := fr.i.prog.ImportedPackage(pkg)
	if p == nil {
		panic(engineError{"package not loaded: " + pkg})
	}
	t := p.Type(name)
	if t == nil {
		panic(engineError{"type not found: " + pkg + "." + name})
	}
	return t.Type()
}

func (fr *frame) newErrorString(msg string) value {
	t := fr.namedType("errors", "errorString")
	var cell value = structure{msg}
	return iface{t: types.NewPointer(t), v: &cell}
}

func (fr *frame) fmtErrorf(args []value) value {
	msg, wrapped := fr.format(args[0].(string), args[1].([]value), true)
	switch len(wrapped) {
	case 0:
		return fr.newErrorString(msg)
	case 1:
		t := fr.namedType("fmt", "wrapError")
		var cell value = structure{msg, wrapped[0]}
		return iface{t: types.NewPointer(t), v: &cell}
	default:
		t := fr.namedType("fmt", "wrapErrors")
		errs := make([]value, len(wrapped))
		for i, w := range wrapped {
			errs[i] = w
		}
		var cell value = structure{msg, errs}
		return iface{t: types.NewPointer(t), v: &cell}
	}
}

func (fr *frame) unwrapAll(e iface) []iface {
	f := fr.hasMethod(e.t, "Unwrap")
	if f == nil || f.Signature.Params().Len() != 0 || f.Signature.Results().Len() != 1 {
		return nil
	}
	if p, isPtr := e.v.(*value); isPtr && p == nil {
		return nil
	}
	r := call(fr.i, fr, token.NoPos, f, []value{e.v})
	switch x := r.(type) {
	case iface:
		if x.t == nil {
			return nil
		}
		return []iface{x}
	case []value:
		var out []iface
		for _, v := range x {
			if it, ok := v.(iface); ok && it.t != nil {
				out = append(out, it)
			}
		}
		return out
	}
	return nil
}

func comparableType(t types.Type) bool { return types.Comparable(t) }

func (fr *frame) errorsIs(err, target iface) value {
	if err.t == nil || target.t == nil {
		return err.t == nil && target.t == nil
	}
	isCmp := comparableType(target.t)
	var walk func(e iface) bool
	walk = func(e iface) bool {
		if isCmp && sameType(e.t, target.t) {
			if fr.decide(equalsV(e.t, e.v, target.v), "errors.Is") {
				return true
			}
		}
		if f := fr.hasMethod(e.t, "Is"); f != nil && f.Signature.Params().Len() == 1 {
			if r, ok := call(fr.i, fr, token.NoPos, f, []value{e.v, target}).(bool); ok && r {
				return true
			}
		}
		for _, u := range fr.unwrapAll(e) {
			if walk(u) {
				return true
			}
		}
		return false
	}
	return walk(err)
}

func (fr *frame) errorsAs(err, target iface) value {
	if err.t == nil {
		return false
	}
	pt, ok := target.t.Underlying().(*types.Pointer)
	if !ok {
		fr.rtPanic("errors: target must be a non-nil pointer")
	}
	tt := pt.Elem()
	dst := fr.ptr(target.v)
	var walk func(e iface) bool
	walk = func(e iface) bool {
		if types.IsInterface(tt) {
			if types.Implements(e.t, tt.Underlying().(*types.Interface)) {
				*dst = e
				return true
			}
		} else if types.Identical(e.t, tt) {
			store(tt, dst, e.v)
			return true
		}
		if f := fr.hasMethod(e.t, "As"); f != nil && f.Signature.Params().Len() == 1 {
			if r, ok := call(fr.i, fr, token.NoPos, f, []value{e.v, target}).(bool); ok && r {
				return true
			}
		}
		for _, u := range fr.unwrapAll(e) {
			if walk(u) {
				return true
			}
		}
		return false
	}
	return walk(err)
}
