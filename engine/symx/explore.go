package symx

import (
	"fmt"
	"go/token"
	"go/types"
	"os"
	"sort"
	"strings"
	"sync"
	"time"

	"golang.org/x/tools/go/ssa"

	"verif/engine/smt"
)

type Config struct {
	Workers         int
	Solver          string
	SolverTimeoutMs int
	MaxSteps        int
	Unwind          int
	MaxDepth        int
	MaxPaths        int
	SampleModels    int // number of passing paths for which a model of the path condition is extracted
	Trace           bool
	KeepSamples     int
	Deadline        time.Time
	Params          map[string]int
	// RecursionLimits: function name -> max simultaneous activations; exceeding it is
	// reported as a termination violation (unwinding assertion turned into a finding).
	RecursionLimits map[string]int
}

func (c *Config) defaults() {
	if c.Workers <= 0 {
		c.Workers = 16
	}
	if c.Solver == "" {
		c.Solver = "z3"
	}
	if c.SolverTimeoutMs <= 0 {
		c.SolverTimeoutMs = 20000
	}
	if c.MaxSteps <= 0 {
		c.MaxSteps = 5_000_000
	}
	if c.Unwind <= 0 {
		c.Unwind = 32
	}
	if c.MaxDepth <= 0 {
		c.MaxDepth = 400
	}
	if c.MaxPaths <= 0 {
		c.MaxPaths = 2_000_000
	}
	if c.KeepSamples <= 0 {
		c.KeepSamples = 4
	}
}

// Shared is state shared by all workers of one exploration.
type Shared struct {
	prog       *ssa.Program
	intrinsics map[string]intrinsicFn
	mu         sync.Mutex
	goSites    map[string]int
	intrUsed   map[string]int
}

func NewShared(prog *ssa.Program) *Shared {
	sh := &Shared{prog: prog, goSites: map[string]int{}, intrUsed: map[string]int{}}
	sh.buildIntrinsics()
	return sh
}

func (sh *Shared) noteGo(pos string) {
	sh.mu.Lock()
	sh.goSites[pos]++
	sh.mu.Unlock()
}

func (sh *Shared) noteIntrinsic(name string) {
	sh.mu.Lock()
	sh.intrUsed[name]++
	sh.mu.Unlock()
}

// Report is the outcome of exploring one obligation.
type Report struct {
	Entry        string
	Paths        int
	Ends         map[string]int
	Decisions    int
	Forks        int
	Steps        int64
	AssertCounts map[string]map[string]int // id -> verdict -> count
	Reached      map[string]int
	Violations   []*Violation
	EngineErrors []string
	Truncated    []string
	Unknowns     int
	Funcs        map[string]int
	Intrinsics   map[string]int
	GoSites      map[string]int
	Samples      []*PathSample
	Models       []*PathSample // sampled passing paths with a model, for native cross-validation
	SolverQ      int64
	SolverNs     int64
	WallS        float64
	Exhausted    bool // false if MaxPaths or deadline cut the exploration
	DecisionSites map[string]int
}

type PathSample struct {
	Decisions string              `json:"decisions"`
	End       string              `json:"end"`
	Events    []string            `json:"events,omitempty"`
	Asserts   []AssertResult      `json:"asserts,omitempty"`
	Reached   []string            `json:"reached,omitempty"`
	Model     []NDValue           `json:"model,omitempty"`
	Facts     map[string]string   `json:"facts,omitempty"`
}

func (p *pathCtx) noteND(label, kind string, t *smt.Term, conc value) {
	occ := p.occ[label]
	p.occ[label] = occ + 1
	p.nds = append(p.nds, NDRecord{Label: label, Occ: occ, Kind: kind, Term: t, Conc: conc})
}

func (p *pathCtx) checkPC() smt.Result {
	r, err := p.solver.Check()
	if err != nil {
		panic(engineError{err.Error()})
	}
	if r == smt.Unknown {
		p.res.Unknowns++
	}
	return r
}

func (p *pathCtx) violation(fr *frame, kind, id, msg string) *Violation {
	v := &Violation{ID: id, Kind: kind, Msg: msg, Events: append([]string{}, p.events...), Facts: map[string]string{}, Stack: stackOf(fr)}
	if fr != nil {
		v.Pos = shortPos(fr.pos())
		v.Func = fr.fn.String()
	}
	for k, val := range p.facts {
		v.Facts[k] = val
	}
	for _, d := range p.decs {
		v.Decs = append(v.Decs, d.Chosen)
	}
	return v
}

// assert evaluates a property assertion.
func (p *pathCtx) assert(fr *frame, c value, id string) {
	pos := shortPos(fr.pos())
	switch b := c.(type) {
	case bool:
		if b {
			p.res.Asserts = append(p.res.Asserts, AssertResult{id, "concrete-true", pos})
			return
		}
		// path condition is satisfiable by construction; fetch a model
		r := p.checkPC()
		if r == smt.Unsat {
			p.res.Asserts = append(p.res.Asserts, AssertResult{id, "unsat", pos})
			panic(pathAbort{"infeasible", "assert on infeasible path"})
		}
		if r != smt.Sat {
			p.res.Asserts = append(p.res.Asserts, AssertResult{id, "unknown", pos})
			panic(pathAbort{"violation", "assert false, model unknown"})
		}
		v := p.violation(fr, "assert", id, "assertion false on this path")
		v.Trace = p.model()
		p.res.Violations = append(p.res.Violations, v)
		p.res.Asserts = append(p.res.Asserts, AssertResult{id, "sat", pos})
		// keep executing: later assertions on this path are still evaluated
		return
	case sym:
		p.solver.Push()
		p.solver.Assert(smt.Not(b.t))
		r, err := p.solver.Check()
		if err != nil {
			p.solver.Pop()
			panic(engineError{err.Error()})
		}
		switch r {
		case smt.Unsat:
			p.solver.Pop()
			p.res.Asserts = append(p.res.Asserts, AssertResult{id, "unsat", pos})
			return
		case smt.Sat:
			v := p.violation(fr, "assert", id, "assertion can be false")
			v.Trace = p.model()
			p.solver.Pop()
			p.res.Violations = append(p.res.Violations, v)
			p.res.Asserts = append(p.res.Asserts, AssertResult{id, "sat", pos})
			// continue under the assumption that it held, if possible
			p.addPC(b.t)
			if p.checkPC() != smt.Sat {
				panic(pathAbort{"violation", id})
			}
			return
		default:
			p.solver.Pop()
			p.res.Unknowns++
			p.res.Asserts = append(p.res.Asserts, AssertResult{id, "unknown", pos})
			return
		}
	}
	panic(engineError{fmt.Sprintf("Assert on %T", c)})
}

type task struct{ prefix []int32 }

// Explore runs the obligation whose entry point is fn (no parameters) to exhaustion.
func Explore(prog *ssa.Program, sh *Shared, fn *ssa.Function, cfg Config) *Report {
	cfg.defaults()
	t0 := time.Now()
	rep := &Report{Entry: fn.String(), Ends: map[string]int{}, AssertCounts: map[string]map[string]int{},
		Reached: map[string]int{}, Funcs: map[string]int{}, Exhausted: true}
	var mu sync.Mutex
	cond := sync.NewCond(&mu)
	stack := []task{{}}
	inflight := 0
	stop := false
	seenViol := map[string]bool{}
	engErr := map[string]bool{}

	worker := func(id int) {
		var solver *smt.Solver
		pathsOnSolver := 0
		defer func() {
			if solver != nil {
				solver.Close()
			}
		}()
		for {
			mu.Lock()
			for len(stack) == 0 && inflight > 0 && !stop {
				cond.Wait()
			}
			if stop || (len(stack) == 0 && inflight == 0) {
				mu.Unlock()
				cond.Broadcast()
				return
			}
			t := stack[len(stack)-1]
			stack = stack[:len(stack)-1]
			inflight++
			wantModel := rep.Paths < cfg.SampleModels*4 && len(rep.Models) < cfg.SampleModels
			mu.Unlock()

			if solver == nil || pathsOnSolver > 300 {
				if solver != nil {
					mu.Lock()
					rep.SolverQ += solver.Queries
					rep.SolverNs += solver.Nanos
					mu.Unlock()
					solver.Close()
				}
				var err error
				solver, err = smt.Start(cfg.Solver, cfg.SolverTimeoutMs)
				if err == nil {
					for _, fb := range []string{"cvc5", "z3-new", "z3"} {
						if fb != cfg.Solver {
							solver.Fallback = append(solver.Fallback, fb)
						}
					}
				}
				if lf := os.Getenv("VERIF_SMT_LOG"); lf != "" && err == nil && id == 0 {
					if f, e := os.Create(lf); e == nil {
						solver.Log = f
					}
				}
				pathsOnSolver = 0
				if err != nil {
					mu.Lock()
					rep.EngineErrors = append(rep.EngineErrors, "cannot start solver: "+err.Error())
					stop = true
					inflight--
					mu.Unlock()
					cond.Broadcast()
					return
				}
			}
			pathsOnSolver++
			res, fatal := runPath(prog, sh, fn, t.prefix, solver, &cfg, wantModel)
			if fatal {
				solver.Close()
				solver = nil
			}

			mu.Lock()
			inflight--
			rep.Paths++
			rep.Ends[res.End]++
			rep.Decisions += len(res.Decisions)
			if rep.DecisionSites == nil {
				rep.DecisionSites = map[string]int{}
			}
			from := len(t.prefix)
			if from > len(res.Decisions) {
				from = len(res.Decisions)
			}
			for _, d := range res.Decisions[from:] {
				rep.DecisionSites[d.Kind]++
			}
			rep.Steps += int64(res.Steps)
			rep.Unknowns += res.Unknowns
			for _, a := range res.Asserts {
				if rep.AssertCounts[a.ID] == nil {
					rep.AssertCounts[a.ID] = map[string]int{}
				}
				rep.AssertCounts[a.ID][a.Verdict]++
			}
			for _, r := range res.Reached {
				rep.Reached[r]++
			}
			for f, n := range res.Funcs {
				rep.Funcs[f] += n
			}
			for _, v := range res.Violations {
				key := v.ID + "|" + v.Pos + "|" + factsKey(v.Facts)
				if !seenViol[key] {
					seenViol[key] = true
					rep.Violations = append(rep.Violations, v)
				}
			}
			switch res.End {
			case "engine-error":
				k := res.Msg
				if len(k) > 400 {
					k = k[:400]
				}
				if !engErr[k] && len(rep.EngineErrors) < 20 {
					engErr[k] = true
					rep.EngineErrors = append(rep.EngineErrors, res.Msg)
				}
			case "truncated":
				if len(rep.Truncated) < 10 {
					rep.Truncated = append(rep.Truncated, res.Msg)
				}
			}
			if len(rep.Samples) < cfg.KeepSamples || (res.End == "violation" && len(rep.Samples) < cfg.KeepSamples*4) {
				rep.Samples = append(rep.Samples, sampleOf(res))
			}
			if res.Model != nil && res.End == "ok" && len(res.Violations) == 0 && len(rep.Models) < cfg.SampleModels {
				s := sampleOf(res)
				s.Model = res.Model
				rep.Models = append(rep.Models, s)
			}
			rep.Forks += len(res.NewTasks)
			for _, nt := range res.NewTasks {
				stack = append(stack, task{nt})
			}
			if rep.Paths+len(stack) > cfg.MaxPaths && rep.Paths >= cfg.MaxPaths {
				rep.Exhausted = false
				stop = true
			}
			if !cfg.Deadline.IsZero() && time.Now().After(cfg.Deadline) {
				rep.Exhausted = false
				stop = true
			}
			mu.Unlock()
			cond.Broadcast()
		}
	}
	var wg sync.WaitGroup
	for w := 0; w < cfg.Workers; w++ {
		wg.Add(1)
		go func(id int) { defer wg.Done(); worker(id) }(w)
	}
	wg.Wait()
	if len(stack) > 0 {
		rep.Exhausted = false
	}
	sh.mu.Lock()
	rep.Intrinsics = map[string]int{}
	for k, v := range sh.intrUsed {
		rep.Intrinsics[k] = v
	}
	rep.GoSites = map[string]int{}
	for k, v := range sh.goSites {
		rep.GoSites[k] = v
	}
	sh.mu.Unlock()
	rep.SolverQ = smt.TotalQueries
	rep.SolverNs = smt.TotalNanos
	rep.WallS = time.Since(t0).Seconds()
	sort.Slice(rep.Violations, func(i, j int) bool { return rep.Violations[i].ID < rep.Violations[j].ID })
	return rep
}

func factsKey(f map[string]string) string {
	var ks []string
	for k, v := range f {
		ks = append(ks, k+"="+v)
	}
	sort.Strings(ks)
	return strings.Join(ks, ",")
}

func sampleOf(res *PathResult) *PathSample {
	var sb strings.Builder
	for i, d := range res.Decisions {
		if i > 0 {
			sb.WriteByte(',')
		}
		fmt.Fprintf(&sb, "%d", d.Chosen)
		if i > 200 {
			sb.WriteString(",…")
			break
		}
	}
	ev := res.Events
	if len(ev) > 60 {
		ev = append(append([]string{}, ev[:60]...), "…")
	}
	return &PathSample{Decisions: sb.String(), End: res.End, Events: ev, Asserts: res.Asserts, Reached: res.Reached, Facts: res.Facts}
}

// runPath executes one path. fatal reports that the solver must be restarted.
func runPath(prog *ssa.Program, sh *Shared, fn *ssa.Function, prefix []int32, solver *smt.Solver, cfg *Config, wantModel bool) (res *PathResult, fatal bool) {
	res = &PathResult{End: "ok", Funcs: map[string]int{}}
	p := &pathCtx{prefix: prefix, solver: solver, occ: map[string]int{}, facts: map[string]string{}, res: res,
		maxSteps: cfg.MaxSteps, unwind: cfg.Unwind, maxDepth: cfg.MaxDepth, cfg: cfg, secCache: map[int64]value{}}
	i := &interpreter{prog: prog, globals: map[*ssa.Global]*value{}, inited: map[*ssa.Package]bool{}, path: p, shared: sh,
		funcHits: map[*ssa.Function]int{}, tracing: cfg.Trace, onces: map[*value]bool{}, syncMaps: map[*value]*omap{}}
	if rt := prog.ImportedPackage("runtime"); rt != nil {
		if et := rt.Type("errorString"); et != nil {
			i.runtimeErrorString = et.Type()
		}
	}
	base := solver.Depth()
	solver.Push()
	defer i.killThreads()
	defer func() {
		r := recover()
		if r != nil {
			r = normalizePanic(r)
			switch e := r.(type) {
			case pathAbort:
				res.End = e.kind
				res.Msg = e.msg
			case engineError:
				res.End = "engine-error"
				res.Msg = e.msg
			case targetPanic:
				res.End = "panic"
				msg := "panic: " + panicText(e.v)
				res.Msg = msg
				func() {
					defer func() {
						if rr := recover(); rr != nil {
							res.End = "engine-error"
							res.Msg = fmt.Sprint(rr)
						}
					}()
					if p.checkPC() == smt.Sat {
						v := p.violation(nil, "panic", "panic.explicit@"+funcShort(e.fn), msg)
						v.Pos = shortPos(e.pos)
						v.Func = e.fn
						v.Trace = p.model()
						res.Violations = append(res.Violations, v)
					}
				}()
			case nonTermination:
				res.End = "violation"
				res.Msg = fmt.Sprintf("recursion bound exceeded: %d activations of %s", e.depth, e.fn)
				if e.loop {
					res.Msg = fmt.Sprintf("loop bound exceeded: a block of %s entered %d times in one activation", e.fn, e.depth)
				}
				func() {
					defer func() {
						if rr := recover(); rr != nil {
							res.End = "engine-error"
							res.Msg = fmt.Sprint(rr)
						}
					}()
					if p.checkPC() == smt.Sat {
						v := p.violation(nil, "nonterm", "termination@"+funcShort(e.fn), res.Msg)
						v.Func = e.fn
						v.Trace = p.model()
						res.Violations = append(res.Violations, v)
					}
				}()
			case targetRuntimeError:
				res.End = "panic"
				res.Msg = "runtime error: " + e.msg + " at " + e.pos
				func() {
					defer func() {
						if rr := recover(); rr != nil {
							res.End = "engine-error"
							res.Msg = fmt.Sprint(rr)
						}
					}()
					if p.checkPC() == smt.Sat {
						v := p.violation(nil, "panic", "panic.runtime@"+funcShort(e.fn), res.Msg)
						v.Pos = shortPos(e.pos)
						v.Func = e.fn
						v.Stack = e.stack
						v.Trace = p.model()
						res.Violations = append(res.Violations, v)
					}
				}()
			}
		} else if wantModel {
			func() {
				defer func() { recover() }()
				if p.checkPC() == smt.Sat {
					res.Model = p.model()
				}
			}()
		}
		res.Decisions = p.decs
		res.Events = p.events
		res.Steps = p.steps
		res.NDs = p.nds
		res.Facts = p.facts
		for f, n := range i.funcHits {
			res.Funcs[f.String()] = n
		}
		// restore solver scope
		func() {
			defer func() {
				if rr := recover(); rr != nil {
					fatal = true
				}
			}()
			for solver.Depth() > base {
				solver.Pop()
			}
		}()
		if res.End == "engine-error" && strings.Contains(res.Msg, "solver") {
			fatal = true
		}
	}()
	call(i, nil, token.NoPos, fn, nil)
	return
}

func funcShort(fn string) string {
	fn = strings.ReplaceAll(fn, "github.com/yandex/mysync/internal/", "")
	return fn
}

func panicText(v value) string {
	if it, ok := v.(iface); ok {
		if s, ok := it.v.(string); ok {
			return s
		}
		if it.t != nil {
			return fmt.Sprintf("(%s) %s", it.t, toString(it.v))
		}
	}
	return toString(v)
}

var _ = types.Typ
