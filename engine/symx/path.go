package symx

// Path context: decisions, path condition, solver session, verifnd records.

import (
	"fmt"
	"go/types"
	"strings"

	"verif/engine/smt"
)

// engineError aborts the whole obligation as inconclusive (never a pass).
type engineError struct{ msg string }

func (e engineError) Error() string { return "engine error: " + e.msg }

// pathAbort ends the current path quietly.
type pathAbort struct {
	kind string // "assume", "infeasible", "truncated", "done"
	msg  string
}

// targetRuntimeError is a Go run-time panic of the target program detected by the interpreter.
type targetRuntimeError struct {
	msg   string
	pos   string
	fn    string
	stack []string
}

func (e targetRuntimeError) Error() string { return "runtime error: " + e.msg }

// nonTermination: a recursion bound derived from the code was exceeded on a feasible path.
type nonTermination struct {
	fn    string
	depth int
	loop  bool // a loop-iteration bound (verifnd.LoopLimit) rather than a recursion bound
}

func isEngineSignal(r any) bool {
	switch r.(type) {
	case engineError, pathAbort, nonTermination:
		return true
	}
	return false
}

type Decision struct {
	N      int  // number of outcomes
	Chosen int  // outcome taken
	Forced bool // only one outcome feasible (recorded for deterministic re-execution)
	Kind   string
}

// NDRecord is one verifnd draw on the path.
type NDRecord struct {
	Label string
	Occ   int    // occurrence number of this label on the path
	Kind  string // bool,int,int64,uint64,float,byte,choose
	Term  *smt.Term
	Conc  value // for choose / concrete draws
}

type AssertResult struct {
	ID      string
	Verdict string // "unsat" (holds), "sat" (violated), "unknown", "concrete-true", "concrete-false"
	Pos     string
}

// Violation is a failed assertion (or target panic) with a model.
type Violation struct {
	ID     string
	Kind   string // "assert" | "panic"
	Msg    string
	Pos    string
	Func   string
	Trace  []NDValue
	Events []string
	Facts  map[string]string
	Decs   []int
	Stack  []string
}

type NDValue struct {
	Label string `json:"label"`
	Occ   int    `json:"occ"`
	Kind  string `json:"kind"`
	Value string `json:"value"` // decimal / bool / float bits hex
}

// PathResult summarises one explored path.
type PathResult struct {
	Decisions  []Decision
	End        string // "ok", "assume", "infeasible", "truncated", "panic", "violation"
	Msg        string
	Asserts    []AssertResult
	Reached    []string
	Events     []string
	Violations []*Violation
	Steps      int
	Unknowns   int
	NewTasks   [][]int32
	NDs        []NDRecord
	Funcs      map[string]int
	Model      []NDValue // model of the path condition for sampled paths (cross validation)
	Facts      map[string]string
}

// pathCtx is the per-path mutable state.
type pathCtx struct {
	prefix   []int32
	decs     []Decision
	solver   *smt.Solver
	pcCount  int
	nds      []NDRecord
	occ      map[string]int
	events   []string
	facts    map[string]string
	res      *PathResult
	steps    int
	maxSteps int
	unwind   int
	maxDepth int
	depth    int
	symCount int
	cfg      *Config
	inInit   int
	secCache map[int64]value
	active   map[string]int
	// loopLimits: short function name -> max entries of any one basic block per
	// activation (set from the harness by verifnd.LoopLimit; exceeding it on a
	// feasible path is a termination violation, not a truncated path)
	loopLimits map[string]int
}

func (p *pathCtx) outcomes() []int32 {
	out := make([]int32, len(p.decs))
	for i, d := range p.decs {
		out[i] = int32(d.Chosen)
	}
	return out
}

func (p *pathCtx) fresh(label string, s smt.Sort) *smt.Term {
	p.symCount++
	name := fmt.Sprintf("|%s#%d|", sanitize(label), p.symCount)
	v := smt.Var(name, s)
	p.solver.Declare(v)
	return v
}

func sanitize(s string) string {
	return strings.Map(func(r rune) rune {
		if r == '|' || r == '\\' || r == '\n' {
			return '_'
		}
		return r
	}, s)
}

// addPC asserts c on the path condition.
func (p *pathCtx) addPC(c *smt.Term) {
	if c.IsTrue() {
		return
	}
	p.solver.Assert(c)
	p.pcCount++
}

func (p *pathCtx) check(c *smt.Term) smt.Result {
	r, err := p.solver.CheckWith(c)
	if err != nil {
		panic(engineError{err.Error()})
	}
	if r == smt.Unknown {
		p.res.Unknowns++
	}
	return r
}

// decideBool turns a symbolic condition into a concrete branch, forking the exploration.
func (p *pathCtx) decideBool(c *smt.Term, kind string) bool {
	if c.IsTrue() {
		return true
	}
	if c.IsFalse() {
		return false
	}
	idx := len(p.decs)
	if idx < len(p.prefix) {
		out := int(p.prefix[idx])
		p.decs = append(p.decs, Decision{N: 2, Chosen: out, Kind: kind})
		if out == 0 {
			p.addPC(c)
		} else {
			p.addPC(smt.Not(c))
		}
		return out == 0
	}
	rt := p.check(c)
	if rt == smt.Unsat {
		// pc is satisfiable by construction, so not-c is forced
		p.decs = append(p.decs, Decision{N: 2, Chosen: 1, Forced: true, Kind: kind})
		p.addPC(smt.Not(c))
		return false
	}
	rf := p.check(smt.Not(c))
	if rf == smt.Unsat {
		p.decs = append(p.decs, Decision{N: 2, Chosen: 0, Forced: true, Kind: kind})
		p.addPC(c)
		return true
	}
	// both sides feasible (or unknown = keep): fork
	alt := append(p.outcomes(), 1)
	p.res.NewTasks = append(p.res.NewTasks, alt)
	p.decs = append(p.decs, Decision{N: 2, Chosen: 0, Kind: kind})
	p.addPC(c)
	return true
}

// choose forks over n concrete alternatives.
func (p *pathCtx) choose(n int, kind string) int {
	if n <= 0 {
		panic(engineError{"choose: n <= 0"})
	}
	if n == 1 {
		return 0
	}
	idx := len(p.decs)
	if idx < len(p.prefix) {
		out := int(p.prefix[idx])
		if out >= n {
			panic(engineError{fmt.Sprintf("choose: prefix outcome %d >= n %d (non-deterministic re-execution?)", out, n)})
		}
		p.decs = append(p.decs, Decision{N: n, Chosen: out, Kind: kind})
		return out
	}
	base := p.outcomes()
	for k := n - 1; k >= 1; k-- {
		alt := append(append([]int32{}, base...), int32(k))
		p.res.NewTasks = append(p.res.NewTasks, alt)
	}
	p.decs = append(p.decs, Decision{N: n, Chosen: 0, Kind: kind})
	return 0
}

// concretize forks over the feasible values of a symbolic scalar (bounded).
func (p *pathCtx) concretize(s sym, why string) value {
	const limit = 64
	for n := 0; n < limit; n++ {
		// ask for a value
		r, err := p.solver.Check()
		if err != nil {
			panic(engineError{err.Error()})
		}
		if r != smt.Sat {
			panic(engineError{fmt.Sprintf("concretize(%s): path condition %v", why, r)})
		}
		vals, err := p.solver.GetValues([]*smt.Term{s.t})
		if err != nil {
			panic(engineError{err.Error()})
		}
		v := parseModelValue(s.k, vals[0])
		if p.decideBool(smt.Eq(s.t, lift(v)), "concretize:"+why) {
			return v
		}
	}
	panic(engineError{fmt.Sprintf("concretize(%s): more than %d feasible values", why, limit)})
}

func parseModelValue(k types.BasicKind, txt string) value {
	switch {
	case k == types.Bool:
		return strings.TrimSpace(txt) == "true"
	case k == types.Float64:
		u, ok := smt.ParseFP64(txt)
		if !ok {
			panic(engineError{"cannot parse fp model value " + txt})
		}
		return concreteOf(k, u)
	case kindIsInt(k):
		u, ok := smt.ParseBV(txt)
		if !ok {
			panic(engineError{"cannot parse bv model value " + txt})
		}
		w := kindWidth(k)
		if kindSigned(k) && w < 64 && u&(1<<uint(w-1)) != 0 {
			u |= ^uint64(0) << uint(w)
		}
		return concreteOf(k, u)
	}
	panic(engineError{"parseModelValue: kind"})
}

// model extracts values for all verifnd draws on the path under the current solver scope
// (after a Sat check).
func (p *pathCtx) model() []NDValue {
	// prefer small magnitudes for integer draws (readable, natively replayable counterexamples)
	pushed := 0
	defer func() {
		for ; pushed > 0; pushed-- {
			p.solver.Pop()
		}
	}()
	nmin := 0
	for _, nd := range p.nds {
		if nd.Term == nil || (nd.Kind != "int" && nd.Kind != "int64") || nmin >= 24 {
			continue
		}
		nmin++
		for _, lim := range []uint64{64, 1 << 20} {
			c := smt.And(smt.App("bvsle", smt.Bool, smt.BVLit(-lim, 64), nd.Term), smt.App("bvsle", smt.Bool, nd.Term, smt.BVLit(lim, 64)))
			p.solver.Push()
			p.solver.Assert(c)
			r, err := p.solver.Check()
			if err == nil && r == smt.Sat {
				pushed++
				break
			}
			p.solver.Pop()
		}
	}
	if pushed > 0 || nmin > 0 {
		// re-establish a model in the current scope
		if r, err := p.solver.Check(); err != nil || r != smt.Sat {
			panic(engineError{"model minimisation lost satisfiability"})
		}
	}
	var terms []*smt.Term
	var idx []int
	out := make([]NDValue, len(p.nds))
	for i, nd := range p.nds {
		out[i] = NDValue{Label: nd.Label, Occ: nd.Occ, Kind: nd.Kind}
		if nd.Term != nil {
			terms = append(terms, nd.Term)
			idx = append(idx, i)
		} else {
			out[i].Value = fmtConcrete(nd.Conc)
		}
	}
	vals, err := p.solver.GetValues(terms)
	if err != nil {
		panic(engineError{err.Error()})
	}
	for j, i := range idx {
		nd := p.nds[i]
		var k types.BasicKind
		switch nd.Kind {
		case "bool":
			k = types.Bool
		case "int":
			k = types.Int
		case "int64":
			k = types.Int64
		case "uint64":
			k = types.Uint64
		case "byte":
			k = types.Uint8
		case "float":
			k = types.Float64
		}
		out[i].Value = fmtConcrete(parseModelValue(k, vals[j]))
	}
	return out
}

func fmtConcrete(v value) string {
	switch x := v.(type) {
	case float64:
		return fmt.Sprintf("%v", x)
	case bool:
		if x {
			return "true"
		}
		return "false"
	}
	return fmt.Sprintf("%v", v)
}
