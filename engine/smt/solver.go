package smt

import (
	"bufio"
	"fmt"
	"io"
	"os/exec"
	"strings"
	"sync/atomic"
	"time"
)

type Result int

const (
	Sat Result = iota
	Unsat
	Unknown
	Error
)

func (r Result) String() string {
	return [...]string{"sat", "unsat", "unknown", "error"}[r]
}

// Solver is one live solver process speaking SMT-LIB2 on stdin/stdout.
type Solver struct {
	Kind    string // "z3", "z3-new", "cvc5"
	cmd     *exec.Cmd
	in      io.WriteCloser
	out     *bufio.Reader
	seq     int
	Queries int64
	Nanos   int64
	Log     io.Writer // optional transcript
	timeout int
	scopes  []*Printer // printer per push level
	hist    [][]string // per push level: the text sent (declarations, definitions, assertions)
	dead    bool
	LastErr string
	// Fallback solvers asked (one-shot, whole script) when this one answers unknown.
	Fallback  []string
	Fallbacks int64
	NoModel   bool // last Sat came from a fallback solver: GetValues re-runs that solver one-shot
	lastFallback string
}

var TotalQueries, TotalNanos, TotalFallbacks int64

func Start(kind string, timeoutMs int) (*Solver, error) {
	var cmd *exec.Cmd
	switch kind {
	case "z3":
		cmd = exec.Command("/usr/bin/z3", "-in")
	case "z3-new":
		cmd = exec.Command("z3-new", "-in")
	case "cvc5":
		cmd = exec.Command("cvc5", "--incremental", "--lang=smt2", "--produce-models", fmt.Sprintf("--tlimit-per=%d", timeoutMs))
	default:
		return nil, fmt.Errorf("unknown solver %s", kind)
	}
	in, err := cmd.StdinPipe()
	if err != nil {
		return nil, err
	}
	outp, err := cmd.StdoutPipe()
	if err != nil {
		return nil, err
	}
	cmd.Stderr = cmd.Stdout
	if err := cmd.Start(); err != nil {
		return nil, err
	}
	s := &Solver{Kind: kind, cmd: cmd, in: in, out: bufio.NewReaderSize(outp, 1<<16), timeout: timeoutMs}
	s.scopes = []*Printer{NewPrinter()}
	s.hist = [][]string{nil}
	if kind != "cvc5" {
		s.raw(fmt.Sprintf("(set-option :timeout %d)\n", timeoutMs))
	} else {
		s.raw("(set-logic ALL)\n")
	}
	s.raw("(set-option :produce-models true)\n")
	if _, err := s.sync(); err != nil {
		return nil, err
	}
	return s, nil
}

func (s *Solver) Close() {
	if s == nil || s.dead {
		return
	}
	s.dead = true
	s.in.Close()
	done := make(chan struct{})
	go func() { s.cmd.Wait(); close(done) }()
	select {
	case <-done:
	case <-time.After(2 * time.Second):
		s.cmd.Process.Kill()
	}
}

func (s *Solver) raw(text string) {
	if s.Log != nil {
		io.WriteString(s.Log, text)
	}
	io.WriteString(s.in, text)
}

// sync sends an echo marker and returns all output lines up to it.
func (s *Solver) sync() ([]string, error) {
	s.seq++
	marker := fmt.Sprintf("<<sync-%d>>", s.seq)
	s.raw(fmt.Sprintf("(echo \"%s\")\n", marker))
	var lines []string
	for {
		line, err := s.out.ReadString('\n')
		if err != nil {
			s.dead = true
			return lines, fmt.Errorf("solver %s died: %v (%s)", s.Kind, err, strings.Join(lines, "|"))
		}
		line = strings.TrimSpace(line)
		if line == "" {
			continue
		}
		if strings.Contains(line, marker) {
			return lines, nil
		}
		lines = append(lines, line)
	}
}

func (s *Solver) top() *Printer { return s.scopes[len(s.scopes)-1] }

func (s *Solver) Push() {
	// a new printer scope inherits what is defined below
	np := NewPrinter()
	for k := range s.top().Defined {
		np.Defined[k] = true
	}
	for k := range s.top().Declared {
		np.Declared[k] = true
	}
	s.scopes = append(s.scopes, np)
	s.hist = append(s.hist, nil)
	s.raw("(push 1)\n")
}

func (s *Solver) Pop() {
	s.scopes = s.scopes[:len(s.scopes)-1]
	s.hist = s.hist[:len(s.hist)-1]
	s.raw("(pop 1)\n")
}

func (s *Solver) record(text string) {
	if text != "" {
		s.hist[len(s.hist)-1] = append(s.hist[len(s.hist)-1], text)
	}
}

// Script returns a self-contained script equivalent to the current assertion stack.
func (s *Solver) Script() string {
	var sb strings.Builder
	for _, lvl := range s.hist {
		for _, t := range lvl {
			sb.WriteString(t)
		}
	}
	return sb.String()
}

// oneShot asks another solver binary for a verdict on the current stack.
func (s *Solver) oneShot(kind string, timeoutMs int) Result {
	r, _ := s.oneShotX(kind, timeoutMs, "")
	return r
}

// oneShotX runs the current stack (+ extra commands after check-sat) in a fresh solver process.
func (s *Solver) oneShotX(kind string, timeoutMs int, extra string) (Result, string) {
	var cmd *exec.Cmd
	script := "(set-option :produce-models true)\n" + s.Script() + "(check-sat)\n" + extra
	switch kind {
	case "z3":
		cmd = exec.Command("/usr/bin/z3", "-in", fmt.Sprintf("-t:%d", timeoutMs))
	case "z3-new":
		cmd = exec.Command("z3-new", "-in", fmt.Sprintf("-t:%d", timeoutMs))
	case "cvc5":
		cmd = exec.Command("cvc5", "--lang=smt2", fmt.Sprintf("--tlimit=%d", timeoutMs))
		script = "(set-logic ALL)\n" + script
	default:
		return Unknown, ""
	}
	cmd.Stdin = strings.NewReader(script)
	out, _ := cmd.CombinedOutput()
	txt := string(out)
	if strings.Contains(txt, "(error") {
		return Unknown, txt
	}
	lines := strings.Split(txt, "\n")
	for i, l := range lines {
		switch strings.TrimSpace(l) {
		case "sat":
			return Sat, strings.Join(lines[i+1:], " ")
		case "unsat":
			return Unsat, ""
		}
	}
	return Unknown, txt
}

func (s *Solver) Depth() int { return len(s.scopes) - 1 }

// Assert adds t to the current scope.
func (s *Solver) Assert(t *Term) {
	p := s.top()
	p.Pre.Reset()
	txt := p.Print(t)
	s.raw(p.Pre.String())
	s.raw("(assert " + txt + ")\n")
	s.record(p.Pre.String())
	s.record("(assert " + txt + ")\n")
}

// Declare makes sure variable v is declared in the current scope.
func (s *Solver) Declare(v *Term) {
	p := s.top()
	p.Pre.Reset()
	p.Print(v)
	s.raw(p.Pre.String())
	s.record(p.Pre.String())
}

// Check runs check-sat in the current scope.
func (s *Solver) Check() (Result, error) {
	t0 := time.Now()
	s.raw("(check-sat)\n")
	lines, err := s.sync()
	d := time.Since(t0).Nanoseconds()
	s.Queries++
	s.Nanos += d
	atomic.AddInt64(&TotalQueries, 1)
	atomic.AddInt64(&TotalNanos, d)
	if err != nil {
		return Error, err
	}
	res := Error
	for _, l := range lines {
		switch {
		case strings.HasPrefix(l, "(error"):
			s.LastErr = l
			return Error, fmt.Errorf("solver error: %s", l)
		case l == "sat":
			res = Sat
		case l == "unsat":
			res = Unsat
		case l == "unknown" || l == "timeout":
			res = Unknown
		}
	}
	if res == Error {
		return Error, fmt.Errorf("no verdict from solver: %v", lines)
	}
	if res == Unknown {
		for _, fb := range s.Fallback {
			t1 := time.Now()
			r := s.oneShot(fb, 3*s.timeout)
			d := time.Since(t1).Nanoseconds()
			s.Nanos += d
			atomic.AddInt64(&TotalNanos, d)
			atomic.AddInt64(&TotalFallbacks, 1)
			s.Fallbacks++
			if r == Sat || r == Unsat {
				// note: a Sat obtained this way has no model in the live process
				s.NoModel = r == Sat
				s.lastFallback = fb
				return r, nil
			}
		}
	}
	s.NoModel = false
	return res, nil
}

// CheckAssuming = push; assert t; check; pop.
func (s *Solver) CheckWith(t *Term) (Result, error) {
	s.Push()
	s.Assert(t)
	r, err := s.Check()
	s.Pop()
	return r, err
}

// GetValues returns the model values of the given terms (after a Sat check,
// still in the same scope), as raw SMT-LIB value strings.
func (s *Solver) GetValues(ts []*Term) ([]string, error) {
	if len(ts) == 0 {
		return nil, nil
	}
	if s.NoModel {
		p := s.top()
		p.Pre.Reset()
		var sb strings.Builder
		sb.WriteString("(get-value (")
		for _, t := range ts {
			sb.WriteString(p.Print(t))
			sb.WriteByte(' ')
		}
		sb.WriteString("))\n")
		s.raw(p.Pre.String())
		s.record(p.Pre.String())
		r, txt := s.oneShotX(s.lastFallback, 3*s.timeout, sb.String())
		if r != Sat {
			return nil, fmt.Errorf("solver: fallback solver %s could not reproduce its sat verdict for the model", s.lastFallback)
		}
		sx, _, err := parseSexp(txt, 0)
		if err != nil {
			return nil, err
		}
		var out []string
		for _, pair := range sx.list {
			if len(pair.list) != 2 {
				return nil, fmt.Errorf("get-value: bad pair in %s", txt)
			}
			out = append(out, pair.list[1].String())
		}
		if len(out) != len(ts) {
			return nil, fmt.Errorf("get-value (fallback): %d values for %d terms", len(out), len(ts))
		}
		return out, nil
	}
	p := s.top()
	p.Pre.Reset()
	var sb strings.Builder
	sb.WriteString("(get-value (")
	for _, t := range ts {
		sb.WriteString(p.Print(t))
		sb.WriteByte(' ')
	}
	sb.WriteString("))\n")
	s.raw(p.Pre.String())
	s.record(p.Pre.String())
	s.raw(sb.String())
	lines, err := s.sync()
	if err != nil {
		return nil, err
	}
	txt := strings.Join(lines, " ")
	if strings.Contains(txt, "(error") {
		return nil, fmt.Errorf("get-value: %s", txt)
	}
	sx, _, err := parseSexp(txt, 0)
	if err != nil {
		return nil, err
	}
	var out []string
	for _, pair := range sx.list {
		if len(pair.list) != 2 {
			return nil, fmt.Errorf("get-value: bad pair in %s", txt)
		}
		out = append(out, pair.list[1].String())
	}
	if len(out) != len(ts) {
		return nil, fmt.Errorf("get-value: %d values for %d terms: %s", len(out), len(ts), txt)
	}
	return out, nil
}

type sexp struct {
	atom string
	list []*sexp
	isL  bool
}

func (s *sexp) String() string {
	if !s.isL {
		return s.atom
	}
	parts := make([]string, len(s.list))
	for i, x := range s.list {
		parts[i] = x.String()
	}
	return "(" + strings.Join(parts, " ") + ")"
}

func parseSexp(s string, i int) (*sexp, int, error) {
	for i < len(s) && (s[i] == ' ' || s[i] == '\n' || s[i] == '\t') {
		i++
	}
	if i >= len(s) {
		return nil, i, fmt.Errorf("eof in sexp")
	}
	if s[i] == '(' {
		i++
		r := &sexp{isL: true}
		for {
			for i < len(s) && (s[i] == ' ' || s[i] == '\n' || s[i] == '\t') {
				i++
			}
			if i >= len(s) {
				return nil, i, fmt.Errorf("eof in list")
			}
			if s[i] == ')' {
				return r, i + 1, nil
			}
			var c *sexp
			var err error
			c, i, err = parseSexp(s, i)
			if err != nil {
				return nil, i, err
			}
			r.list = append(r.list, c)
		}
	}
	j := i
	for j < len(s) && s[j] != ' ' && s[j] != ')' && s[j] != '(' && s[j] != '\n' {
		j++
	}
	return &sexp{atom: s[i:j]}, j, nil
}

// ParseBV parses "#x..", "#b.." or "(_ bvN w)" into a uint64.
func ParseBV(v string) (uint64, bool) {
	v = strings.TrimSpace(v)
	var u uint64
	switch {
	case strings.HasPrefix(v, "#x"):
		_, err := fmt.Sscanf(v[2:], "%x", &u)
		return u, err == nil
	case strings.HasPrefix(v, "#b"):
		for _, c := range v[2:] {
			u = u<<1 | uint64(c-'0')
		}
		return u, true
	case strings.HasPrefix(v, "(_ bv"):
		_, err := fmt.Sscanf(v, "(_ bv%d", &u)
		return u, err == nil
	}
	return 0, false
}

// ParseFP64 parses an FP model value into IEEE bits.
func ParseFP64(v string) (uint64, bool) {
	v = strings.TrimSpace(v)
	switch {
	case strings.HasPrefix(v, "(fp "):
		sx, _, err := parseSexp(v, 0)
		if err != nil || len(sx.list) != 4 {
			return 0, false
		}
		s, ok1 := ParseBV(sx.list[1].String())
		e, ok2 := ParseBV(sx.list[2].String())
		m, ok3 := ParseBV(sx.list[3].String())
		if !(ok1 && ok2 && ok3) {
			return 0, false
		}
		return s<<63 | e<<52 | m, true
	case strings.HasPrefix(v, "(_ +zero"):
		return 0, true
	case strings.HasPrefix(v, "(_ -zero"):
		return 1 << 63, true
	case strings.HasPrefix(v, "(_ +oo"):
		return 0x7ff0000000000000, true
	case strings.HasPrefix(v, "(_ -oo"):
		return 0xfff0000000000000, true
	case strings.HasPrefix(v, "(_ NaN"):
		return 0x7ff8000000000001, true
	}
	return 0, false
}
