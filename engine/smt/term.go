// Package smt: a tiny SMT-LIB2 term builder (Bool, BV, FP) and a driver for
// long-lived solver processes (z3 -in, z3-new -in, cvc5 --incremental).
package smt

import (
	"fmt"
	"math"
	"strings"
	"sync/atomic"
)

type SortKind int

const (
	KBool SortKind = iota
	KBV
	KFP64
	KFP32
)

type Sort struct {
	K SortKind
	W int // bit width for KBV
}

var (
	Bool = Sort{K: KBool}
	F64  = Sort{K: KFP64}
	F32  = Sort{K: KFP32}
)

func BV(w int) Sort { return Sort{K: KBV, W: w} }

func (s Sort) String() string {
	switch s.K {
	case KBool:
		return "Bool"
	case KBV:
		return fmt.Sprintf("(_ BitVec %d)", s.W)
	case KFP64:
		return "(_ FloatingPoint 11 53)"
	case KFP32:
		return "(_ FloatingPoint 8 24)"
	}
	return "?"
}

var termID int64

// Term is an immutable DAG node.
type Term struct {
	Op    string // SMT operator, or "" for leaf
	Args  []*Term
	S     Sort
	Leaf  string // literal text or variable name when Op==""
	IsVar bool
	IsLit bool
	LitU  uint64 // BV literal value / bool (0,1) / fp bits
	size  int
	name  string // non-empty => emitted through define-fun under this name
	ID    int64
}

const nameThreshold = 24

func mk(op string, s Sort, args ...*Term) *Term {
	t := &Term{Op: op, Args: args, S: s, ID: atomic.AddInt64(&termID, 1)}
	t.size = 1
	for _, a := range args {
		if a.name != "" {
			t.size++
		} else {
			t.size += a.size
		}
	}
	if t.size > nameThreshold {
		t.name = fmt.Sprintf("t!%d", t.ID)
	}
	return t
}

// Var declares a fresh constant name of sort s. The caller must make the name unique.
func Var(name string, s Sort) *Term {
	return &Term{Leaf: name, S: s, IsVar: true, size: 1, ID: atomic.AddInt64(&termID, 1)}
}

func True() *Term  { return &Term{Leaf: "true", S: Bool, IsLit: true, LitU: 1, size: 1} }
func False() *Term { return &Term{Leaf: "false", S: Bool, IsLit: true, LitU: 0, size: 1} }

func BoolLit(b bool) *Term {
	if b {
		return True()
	}
	return False()
}

func BVLit(v uint64, w int) *Term {
	if w < 64 {
		v &= (uint64(1) << uint(w)) - 1
	}
	var s string
	if w%4 == 0 {
		s = fmt.Sprintf("#x%0*x", w/4, v)
	} else {
		s = fmt.Sprintf("#b%0*b", w, v)
	}
	return &Term{Leaf: s, S: BV(w), IsLit: true, LitU: v, size: 1}
}

func F64Lit(f float64) *Term {
	b := math.Float64bits(f)
	s := fmt.Sprintf("(fp #b%b #b%011b #x%013x)", b>>63, (b>>52)&0x7ff, b&((1<<52)-1))
	return &Term{Leaf: s, S: F64, IsLit: true, LitU: b, size: 1}
}

func F32Lit(f float32) *Term {
	b := math.Float32bits(f)
	s := fmt.Sprintf("(fp #b%b #b%08b #b%023b)", b>>31, (b>>23)&0xff, b&((1<<23)-1))
	return &Term{Leaf: s, S: F32, IsLit: true, LitU: uint64(b), size: 1}
}

func (t *Term) IsTrue() bool  { return t.IsLit && t.S.K == KBool && t.LitU == 1 }
func (t *Term) IsFalse() bool { return t.IsLit && t.S.K == KBool && t.LitU == 0 }

// ---- boolean connectives with light simplification ----

func Not(a *Term) *Term {
	if a.IsTrue() {
		return False()
	}
	if a.IsFalse() {
		return True()
	}
	if a.Op == "not" {
		return a.Args[0]
	}
	return mk("not", Bool, a)
}

func And(a, b *Term) *Term {
	if a.IsFalse() || b.IsFalse() {
		return False()
	}
	if a.IsTrue() {
		return b
	}
	if b.IsTrue() {
		return a
	}
	return mk("and", Bool, a, b)
}

func Or(a, b *Term) *Term {
	if a.IsTrue() || b.IsTrue() {
		return True()
	}
	if a.IsFalse() {
		return b
	}
	if b.IsFalse() {
		return a
	}
	return mk("or", Bool, a, b)
}

func Implies(a, b *Term) *Term { return Or(Not(a), b) }

func Ite(c, a, b *Term) *Term {
	if c.IsTrue() {
		return a
	}
	if c.IsFalse() {
		return b
	}
	if a.S.K == KBool && a.IsLit && b.IsLit {
		if a.IsTrue() && b.IsFalse() {
			return c
		}
		if a.IsFalse() && b.IsTrue() {
			return Not(c)
		}
	}
	return mk("ite", a.S, c, a, b)
}

func Eq(a, b *Term) *Term {
	if a.IsLit && b.IsLit && a.S.K != KFP64 && a.S.K != KFP32 {
		return BoolLit(a.LitU == b.LitU)
	}
	if a.S.K == KBool {
		if b.IsTrue() {
			return a
		}
		if b.IsFalse() {
			return Not(a)
		}
		if a.IsTrue() {
			return b
		}
		if a.IsFalse() {
			return Not(b)
		}
	}
	return mk("=", Bool, a, b)
}

// App builds an arbitrary application.
func App(op string, s Sort, args ...*Term) *Term { return mk(op, s, args...) }

// ---- printing ----

// Printer emits terms, collecting define-funs for big shared nodes.
type Printer struct {
	Defined map[int64]bool // named terms already defined in the current solver scope
	Declared map[string]bool
	Pre     strings.Builder // declarations / definitions to send before the term's use
}

func NewPrinter() *Printer {
	return &Printer{Defined: map[int64]bool{}, Declared: map[string]bool{}}
}

// Print returns the text of t; definitions needed first are appended to p.Pre.
func (p *Printer) Print(t *Term) string {
	var sb strings.Builder
	p.print(&sb, t, true)
	return sb.String()
}

func (p *Printer) print(sb *strings.Builder, t *Term, top bool) {
	if t.Op == "" {
		if t.IsVar && !p.Declared[t.Leaf] {
			p.Declared[t.Leaf] = true
			fmt.Fprintf(&p.Pre, "(declare-const %s %s)\n", t.Leaf, t.S)
		}
		sb.WriteString(t.Leaf)
		return
	}
	if t.name != "" {
		if !p.Defined[t.ID] {
			p.Defined[t.ID] = true
			var body strings.Builder
			p.printApp(&body, t)
			fmt.Fprintf(&p.Pre, "(define-fun %s () %s %s)\n", t.name, t.S, body.String())
		}
		sb.WriteString(t.name)
		return
	}
	p.printApp(sb, t)
}

func (p *Printer) printApp(sb *strings.Builder, t *Term) {
	sb.WriteByte('(')
	sb.WriteString(t.Op)
	for _, a := range t.Args {
		sb.WriteByte(' ')
		p.print(sb, a, false)
	}
	sb.WriteByte(')')
}

// Vars collects the free variables of t (by name).
func Vars(t *Term, into map[string]*Term) {
	seen := map[int64]bool{}
	var rec func(*Term)
	rec = func(x *Term) {
		if x.Op == "" {
			if x.IsVar {
				into[x.Leaf] = x
			}
			return
		}
		if seen[x.ID] {
			return
		}
		seen[x.ID] = true
		for _, a := range x.Args {
			rec(a)
		}
	}
	rec(t)
}
