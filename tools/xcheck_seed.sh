#!/bin/bash
# usage: xcheck.sh <seed> <other-property> : run another property's check against a seed
SEED=$1; PID=$2; shift; shift
WT=/tmp/seed_wt
git -C /repo worktree remove --force $WT 2>/dev/null; git -C /repo worktree prune
git -C /repo worktree add -q --detach $WT HEAD || exit 2
cd $WT && git apply /verif/seeded/$SEED/patch.diff || { echo "no apply"; exit 3; }
cd /verif
cp evidence/$PID.json /tmp/evidence_$PID.save 2>/dev/null
out=$(VERIF_REPO=$WT timeout 3000 bin/vcheck run $PID "$@" 2>&1); rc=$?
cp /tmp/evidence_$PID.save evidence/$PID.json 2>/dev/null
echo "$SEED vs $PID: rc=$rc $(echo "$out" | grep "^  counterexample" | awk '{print $2}' | sort | uniq -c | tr '\n' ';')"
git -C /repo worktree remove --force $WT
