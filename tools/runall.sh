#!/bin/bash
# runs every claimed quick check once; prints one line per property
cd ${VERIF_DIR:-/verif}
for id in $(python3 -c "import json;print(' '.join(c['property_id'] for c in json.load(open('MANIFEST.json'))['checks']))"); do
  t0=$(date +%s)
  out=$(timeout ${RUNALL_TIMEOUT:-3000} bin/vcheck run $id --tier ${1:-quick} 2>&1); rc=$?
  t1=$(date +%s)
  echo "$id rc=$rc $((t1-t0))s $(echo "$out" | grep -c '^KNOWN-FINDING') known | $(echo "$out" | grep '^OK\|^VIOLATION\|^INCONCLUSIVE' | head -3 | cut -c1-200 | tr '\n' ';')"
done
