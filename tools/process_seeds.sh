#!/bin/bash
# usage: process_seeds.sh <Cxx> <worktree> <first-number>   verifies MUTATION_A/B as Cxx-<n>, Cxx-<n+1>, removes the worktree, runs the checks
ID=$1; WT=$2; N=$3
cd /verif
for x in A B; do
  n=$N; [ $x = B ] && n=$((N+1))
  echo "== $ID-$n ($x): $(tools/verify_seed.sh $ID $WT $ID-$n MUTATION_$x 2>&1 | tail -1)"
done
git -C /repo worktree remove --force $WT
for n in $N $((N+1)); do
  [ -d seeded/$ID-$n ] && tools/check_seed.sh $ID-$n 2>&1 | grep -v WARNING | cut -c1-300
done
