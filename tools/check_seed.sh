#!/bin/bash
# usage: check_seed.sh <seed-dir-name> [--only H_entry]   e.g. check_seed.sh C05-1
# Applies the seeded change to a scratch worktree of /repo's HEAD and runs the property's quick check against it.
SEED=$1; shift
PID=${SEED%%-*}
WT=/tmp/seed_wt
git -C /repo worktree remove --force $WT 2>/dev/null; git -C /repo worktree prune
git -C /repo worktree add -q --detach $WT HEAD || exit 2
cd $WT && (git apply /verif/seeded/$SEED/patch.diff 2>/dev/null || git apply --3way /verif/seeded/$SEED/patch.diff 2>/dev/null) || { echo "$SEED: PATCH DOES NOT APPLY to current HEAD"; git -C /repo worktree remove --force $WT; exit 3; }
go build ./... || { echo "$SEED: BUILD FAIL"; exit 3; }
cd /verif
cp evidence/$PID.json /tmp/evidence_$PID.save 2>/dev/null
out=$(VERIF_REPO=$WT timeout 3000 bin/vcheck run $PID "$@" 2>&1); rc=$?
cp /tmp/evidence_$PID.save evidence/$PID.json 2>/dev/null
ids=$(echo "$out" | grep "^  counterexample" | awk '{print $2}' | sort | uniq -c | tr '\n' ';')
echo "$SEED: rc=$rc violations: $ids"
echo "$out" | grep "^INCONCLUSIVE" | head -3 | cut -c1-250
git -C /repo worktree remove --force $WT
