#!/bin/bash
# usage: verify_seed.sh <Cxx> <worktree> <seed-name>
# Confirms a seeded change: compiles, existing tests pass with it, demo fails with it and passes without;
# then stores it under /verif/seeded/<seed-name>/ .
set -u
ID=$1; WT=$2; NAME=$3; MUT=${4:-MUTATION}
cd $WT || exit 2
DEMO_DST=$(head -1 $MUT/demo_test.go | grep -o 'internal/[^ ]*_test.go' | head -1)
[ -z "$DEMO_DST" ] && DEMO_DST=$(git status --short | grep '^??' | grep _test.go | awk '{print $2}' | head -1)
echo "demo at: $DEMO_DST"
PKG=./$(dirname $DEMO_DST)
git checkout -q -- . ; git clean -fdq -e "MUTATION*"
cp $MUT/demo_test.go $DEMO_DST
echo "== without change: demo must pass"
go test -mod=mod -vet=off -count=1 $PKG > /tmp/vs_$ID.1 2>&1; R1=$?
git apply $MUT/patch.diff || { echo "patch does not apply"; exit 2; }
echo "== with change: build"
go build ./... > /tmp/vs_$ID.2 2>&1; R2=$?
echo "== with change: existing tests (demo moved aside)"
mv $DEMO_DST /tmp/vs_$ID.demo
go test -mod=mod -vet=off -count=1 ./internal/... ./cmd/... > /tmp/vs_$ID.3 2>&1; R3=$?
mv /tmp/vs_$ID.demo $DEMO_DST
echo "== with change: demo must fail"
timeout 300 go test -mod=mod -vet=off -count=1 $PKG > /tmp/vs_$ID.4 2>&1; R4=$?
echo "without:demo=$R1 build=$R2 tests=$R3 with:demo=$R4"
if [ $R1 -eq 0 ] && [ $R2 -eq 0 ] && [ $R3 -eq 0 ] && [ $R4 -ne 0 ]; then
  D=/verif/seeded/$NAME; mkdir -p $D
  cp $MUT/patch.diff $D/patch.diff; cp $MUT/demo_test.go $D/demo_test.go; cp $MUT/README.md $D/README.agent.md
  echo "CONFIRMED -> $D"
else
  echo "NOT CONFIRMED"; tail -5 /tmp/vs_$ID.1 /tmp/vs_$ID.3 /tmp/vs_$ID.4
fi
