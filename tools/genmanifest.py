#!/usr/bin/env python3
"""Regenerates /verif/MANIFEST.json from the table below (claimed checks + not_applicable)."""
import json, os
V = "/verif"
props = [json.loads(l) for l in open(f"{V}/properties.jsonl")]
ids = [p["id"] for p in props]

SETUP = ("cd /verif/engine && PATH=/opt/veriftools/go1.26.8/bin:$PATH GOFLAGS=-mod=mod GOPROXY=off GOSUMDB=off GOTOOLCHAIN=local "
         "go build -o /verif/bin/vcheck ./cmd/vcheck && /verif/bin/vcheck selftest")

TECH = "bounded symbolic execution of the repo's go/ssa with an SMT solver (z3) deciding every branch and assertion; counterexamples replayed natively"
NOTE = ("Trusted: go/packages+go/ssa (x/tools v0.50.0), the symx interpreter/intrinsics (cross-validated against the native build on sampled paths every run), z3 4.8.12, "
        "the environment models in /verif/harness, and the reading of the property into assertions (DESIGN.md §7). Holds only within the bounds recorded in the evidence file.")

claimed = {
 "C12": ("All six arithmetic relations of the statement are SMT-decided over the whole range n,w,p in [0,2^62] on the real GetRequiredWaitSlaveCount/GetFailoverQuorum/CheckFailoverQuorum (loop-free; the only bound is the word size).", "§7 C12"),
 "C01": ("The whole real performSwitchover from arbitrary GTID patterns (executed and retrieved sets of every node arbitrary bit-vectors), arbitrary published list, alive/dead/already-frozen nodes, four request kinds, three replication modes, with the environment moving between calls; the oracle is evaluated on the ground truth of the fake servers at the moment `SET GLOBAL read_only = 0` arrives: at least the failover quorum of the published members are read-only and hold nothing the promoted node lacks; split brain (no maximum) => nothing promoted + emerge file; success => recorded master = promoted, writable, old master clean or marked; lock re-confirmed after freeze and after catch-up; plus every pattern of lock answers and one failing/lost-reply call.", "§7 C01"),
 "C03": ("Lock layer: the real AcquireLock/ReleaseLock/handleSessionEvent of two zkDCS instances over one fake ZooKeeper, one process's operations interleaved at every ZooKeeper request with session expiry, new sessions, delivery of session events, whole operations of the other process and TTL expiry (3/4 environment actions, 2/3 operations): never true after a delivered session loss unless the znode is owned, release never removes a foreign lock (checked when the delete is applied). Daemon layer: no remote-mutating statement or protected coordination write without a lock confirmation in the same iteration, for every state handler and every pattern of lock answers. Lease-window, version-0 release race and post-refusal FailSwitchover are known findings.", "§7 C03"),
 "C04": ("One call of the real updateActiveNodes (with calcActiveNodes, calcActiveNodesChanges, semi-sync adjustments, eviction guard, SetActiveNodes) from an arbitrary membership/health situation of a master + 2 replicas (10 replica classes x semi-sync flag x old-list membership x master semi-sync state x both adjust orders), with (a)/(b) asserted as checkpoint invariants after every mutating statement or coordination write (crash at any point) and with one failing/lost-reply call; list content rules on every published value; SetRecovery delists before it marks. Known findings listed in KNOWN_FINDINGS.json are reported as such.", "§7 C04"),
 "C15": ("One operation of the real zkDCS data plane (create/set/get/delete/children incl. makePath, retry and path normalisation) from an arbitrary tree over 4 keys x 4 node kinds x 6 slash spellings against a fake ZooKeeper as reference tree, znode versions symbolic (solver-decided), plus buildFullPath over all byte strings up to length 7/10, retry-only-while-connected with 1/2 lost requests, and ephemeral lifetime across sessions. Mostly structural decisions (exhaustive re-execution), the solver decides the version arithmetic.", "§7 C15"),
 "C05": ("One full iteration of the real stateManager (failure detection, gating order, approveFailover, IssueFailover, suspicious-master guard; heavy callees that are other properties' subjects stubbed) over arbitrary manager views, coordination pre-states (maintenance, pending request, last switch with symbolic finish time and cause, published list, health records) and an arbitrary first-seen-failed timer under its inductive invariant: a filed automatic request implies every gate of the statement (one assertion id per gate), has the right shape and was created if-absent; suspicious master => no action; timer invariant preserved; plus approveFailover alone over the replica-state x list product with a cascade replica, manager_switchover on, and one failing coordination read.", "§7 C05"),
 "C09": ("One step of every state handler and of the recovery checker under acknowledged full maintenance (coordination service up, down or failing): no mutating statement, no write to master/active list; light mode never starts or files a failover while planned requests and repairs proceed; leaving succeeds only with exactly one alive master, which becomes the recorded master with a non-empty rebuilt list, several masters raise the emerge file; the acknowledgement is written last on entering. The Candidate/no-marker-file outage case is a known finding.", "§7 C09"),
 "C11": ("One checkRecovery step from arbitrary local role, replication state, GTID relation (6/9 bits), read-only flag, stuck commits and timers: the mark is cleared only for a read-only replica without replication error whose set is contained in the master's, otherwise the resetup file is written and the mark stays; SetRecovery delists before it marks at every crash point; calcActiveNodes and every published list exclude marked non-masters; stale masters are taken offline and marked (mark before re-point); a marked offline master stays offline; performSwitchover leaves the old master clean or marked and never promotes a marked host; ClearRecovery's only caller is checkRecovery (SSA call graph).", "§7 C11"),
 "C19": ("The real Syncer.Sync and Controller (Enable/Disable/DisableAll/Wait) with the real DCS adapter and *mysql.Node over the fake fleet: after a fault-free sync at most one host is left relaxed, hosts without lag or converged are restored then deregistered, deregistration only after a successful restore or for non-cluster hosts (also with 1 failing call); switchover link: no candidate registered or relaxed at the first freeze statement and at promotion, incl. the turbo phase. The latent Wait deregistration is a known finding.", "§7 C19"),
 "C07": ("Bounded two-manager history on the real code: manager #1 runs a full stateManager iteration with a pending request and dies right before its k-th environment call (every mutating statement and coordination write is a crash point, k a decision), a new daemon instance on another host then runs stateManager iterations until quiescent; GTID sets symbolic prefixes under the semi-sync invariant; asserted: request terminal, exactly one writable node = recorded master, reachable replicas read-only and following it, no acknowledged transaction missing. (The inductive I7 formulation of the design was not built: single crash only.)", "§7 C07"),
 "C20": ("Claimed clause only: no reachable Go panic. One iteration of every state handler (everything real above the Node/DCS cut) and of every background check under all combinations of up to 2 (3) anomalies of the coordination tree and the fleet (unregistered recorded master / stream_from, missing or empty health records, lists and registries naming unknown hosts, dead servers, requests naming unknown hosts, maintenance) plus one failing MySQL call and one failing coordination operation; the interpreter's panic detection is the assertion, counterexamples are replayed natively. Leaks and data races are outside the technique (manifest note).", "§7 C20"),
 "C06": ("One manager iteration of the real stateManager request branch (approve/start/perform/fail-or-finish with the real appDCS bookkeeping) from an arbitrary pending request with symbolic run_count, attempt limit, timeout, initiation time and clock; the same iteration interleaved with the operator's abort and the real initiators (CliSwitch, IssueFailover) at every manager write to `switch`; two initiators racing; and the iteration with the whole real performSwitchover (success record implies recorded master = promoted node and writable). Abort/initiator races that the missing compare-and-set makes possible are listed as known findings.", "§7 C06"),
 "C08": ("One iteration of the real stateLost (with checkHAReplicasRunning, getLocalNodeState, the real Node.SetReadOnly/setReadonlyWithTimeout) over every row of the statement's decision table: topology (single node, non-HA, 2..3/4 HA hosts), local role, per-replica probe outcome (streaming, stopped, wrong source, not semi-sync, refusing, hanging), every outcome of SET read_only incl. stuck commits, loss timer and elapsed time symbolic. The local-status-query failure case is a known finding.", "§7 C08"),
 "C10": ("One manager pass of the real repair functions over a grid of replica states (read-only x role x 4-8 thread/error classes x semi-sync), master states, repair histories with symbolic counters/limits/cooldown clock, decoy hosts, and 1 (2) failing or lost-reply calls: safety ids on every path (master key untouched, only registered hosts, never self, reset gated by aggressive mode/attempt limit/cooldown) and the fixpoint characterisation (no statement issued implies canonical state; every statement corrective).", "§7 C10"),
 "C16": ("findBestStreamFrom over every stream_from configuration of 4 (5) hosts incl. chains, cycles, self-reference with symbolic ancestor health (spec + termination as loop-bound violation); one repairCascadeNode step with bit-set GTIDs and environment progress (moved only if contained, never to itself); cascade hosts never counted, listed (calcActiveNodes) or promoted (performSwitchover on that list).", "§7 C16"),
 "C18": ("One call of the real repairReadOnlyOnMaster from an arbitrary situation (0-2 replicas quick / 3 thorough, any reports present/absent, any non-NaN usages and thresholds with not_critical<=critical, both keep-super settings, semi-sync on/off, wait count 0..3, one failing or lost-reply call): forced read-only iff the statement's condition, correct super flag, writable only-if, low_space follows the last successful change; DiskState.Usage non-NaN over all uint64 pairs.", "§7 C18"),
 "C14": ("Selection results decided against the statement's oracle (membership, error-iff-empty, never 'from', priority within the lag bound with the code's own FP subtraction, agreement with the most-recent node) for every priority/lag/GTID-inclusion pattern of <=3 (thorough 4) candidates; termination as a recursion-depth violation.", "§7 C14"),
 "C13": ("Subset/ahead/split-brain/minus/diff relations decided against membership semantics with symbolic interval bounds over the real go-mysql representation (2 UUIDs, <=2 tags, <=2-3 intervals per slice); most-recent-node choice over symbolic bit-sets.", "§7 C13"),
}
na = {
 "C02": "multi-daemon, multi-tick convergence (liveness) has no bounded one-step form that symbolic execution of the real code can discharge; its safety ingredients are decided under C01/C03/C04/C07/C08/C11 (DESIGN.md §7 C02)",
}
checks = []
for pid in ids:
    if pid in claimed:
        text, ref = claimed[pid]
        checks.append({
            "property_id": pid,
            "quick_cmd": f"/verif/bin/vcheck run {pid} --tier quick",
            "thorough_cmd": f"/verif/bin/vcheck run {pid} --tier thorough",
            "evidence_file": f"/verif/evidence/{pid}.json",
            "replay_cmd_template": "/verif/bin/vcheck replay {path}",
            "engine": "gosym",
            "level_claimed": {"category": "model_checking", "text": text, "design_ref": ref},
            "level_note": NOTE,
            "technique": TECH,
        })
not_app = []
for pid in ids:
    if pid not in claimed:
        not_app.append({"property_id": pid, "reason": na.get(pid, "check not built yet (work in progress; will be claimed once its harness runs clean on the unchanged tree)")})
m = {
 "version": 1,
 "setup_cmd": SETUP,
 "hooks": {"guard": "verif", "enable": "none needed: harnesses, verifnd and the instrumented view are injected through go/packages and go test overlays generated from /repo's working tree",
           "baseline_off_cmd": "cd /repo && go test -mod=mod -json -vet=off -count=1 -timeout 25m ./...", "source_commits": [], "add_only": True},
 "engines": [{"name": "gosym", "path": "/verif/engine", "serves_properties": sorted(claimed), "kind_free_text": "symbolic executor for go/ssa (fork of x/tools ssa/interp with symbolic scalars) + SMT-LIB2 to z3; native replay through go test -overlay"}],
 "checks": checks,
 "not_applicable": not_app,
 "notes": "Exit codes of every check: 0 held within the stated bounds; 1 with a VIOLATION line; 2 inconclusive/engine error (never used to hide a violation). See DESIGN.md.",
}
json.dump(m, open(f"{V}/MANIFEST.json", "w"), indent=1)
print("claimed:", sorted(claimed), "n/a:", [x["property_id"] for x in not_app])
