#!/usr/bin/env python3
"""Summarise a vcheck explore JSON report (never print it whole)."""
import json,sys
txt=open(sys.argv[1]).read(); i=txt.index('{'); j=txt.rindex('}')
r=json.loads(txt[i:j+1])
print('paths',r['Paths'],'ends',r['Ends'],'steps/path',int(r['Steps']/max(1,r['Paths'])),'wall',round(r['WallS'],1))
print('reached',r['Reached'])
for k,v in sorted(r['AssertCounts'].items()): print('  assert',k,v)
for e in (r['EngineErrors'] or [])[:5]: print('  ENGINE-ERROR',e[:400])
for e in (r['Truncated'] or [])[:3]: print('  TRUNCATED',e[:300])
n=int(sys.argv[2]) if len(sys.argv)>2 else 8
for v in (r['Violations'] or [])[:n]:
    print('VIOL',v['ID'],v['Facts'],v['Pos'],v['Msg'][:200])
    print('   model:',' '.join(f"{t['label']}={t['value']}" for t in v['Trace'] if not t['label'].startswith(('clock','havoc')))[:1500])
    print('   events:',v['Events'][-14:])
